// simgen generates the simulation build of golang/telemetry.
//
// It loads packages from the repository's *current working tree*, applies
// type-directed, semantics-preserving rewrites that route every source of
// nondeterminism through verif's simrt runtime, writes the rewritten files to a
// scratch directory and prints a `go build -overlay` map that also places the
// runtime, the reference models, the export shims and the harnesses inside the
// repository's import-path tree. Nothing under the repository is modified.
package main

import (
	"bytes"
	"encoding/json"
	"flag"
	"fmt"
	"go/ast"
	"go/format"
	"go/token"
	"go/types"
	"os"
	"path/filepath"
	"sort"
	"strconv"
	"strings"

	"golang.org/x/tools/go/ast/astutil"
	"golang.org/x/tools/go/packages"
	"golang.org/x/tools/go/types/typeutil"
)

const simrtPath = "golang.org/x/telemetry/internal/verifsim/simrt"

var (
	repo     = flag.String("repo", "/repo", "repository root")
	verif    = flag.String("verif", "/verif", "verif root")
	out      = flag.String("out", "", "scratch output directory")
	rootPkgs = flag.String("pkgs", "./internal/counter,./internal/mmap,./internal/telemetry,./internal/upload,.,./cmd/gotelemetry,./counter", "root-module packages to instrument")
	devPkgs  = flag.String("godevpkgs", "", "godev-module packages to instrument (e.g. ./internal/storage,./cmd/worker,./cmd/telemetrygodev)")
	mounts   = flag.String("mount", "", "comma separated virtual=real directory pairs: repo-relative virtual dir = verif-relative real dir")
	verbose  = flag.Bool("v", false, "verbose")
	noGo     = flag.String("nogo", "", "comma separated package paths in which go statements are left alone")
	tickPkgs = flag.String("tickpkgs", "", "root-module packages that only get loop budgets (simrt.Tick in every loop), no scheduling points")
)

// Fields whose every access becomes a scheduling point: non-atomic data that the
// code publishes through an atomic state word.
var yieldFields = map[string]bool{
	"golang.org/x/telemetry/internal/counter.Counter.ptr": true,
}

var osFuncs = map[string]string{
	"OpenFile": "OS_OpenFile", "Open": "OS_Open", "Create": "OS_Create", "ReadFile": "OS_ReadFile",
	"WriteFile": "OS_WriteFile", "Stat": "OS_Stat", "Lstat": "OS_Lstat", "Remove": "OS_Remove",
	"RemoveAll": "OS_RemoveAll", "MkdirAll": "OS_MkdirAll", "Mkdir": "OS_Mkdir", "ReadDir": "OS_ReadDir",
	"Rename": "OS_Rename", "Link": "OS_Link", "Truncate": "OS_Truncate", "Chmod": "OS_Chmod",
	"CreateTemp": "OS_CreateTemp",
	"Getenv":     "Getenv", "LookupEnv": "LookupEnv", "Setenv": "Setenv", "Unsetenv": "Unsetenv",
	"Environ": "Environ", "Getpid": "Getpid", "Executable": "Executable", "Exit": "Exit",
}

var fileMethods = map[string]string{
	"Stat": "File_Stat", "Write": "File_Write", "WriteString": "File_WriteString", "WriteAt": "File_WriteAt",
	"Close": "File_Close", "Truncate": "File_Truncate", "Sync": "File_Sync", "Read": "File_Read", "ReadAt": "File_ReadAt",
}

var timeFuncs = map[string]string{"Now": "Now", "Since": "Since", "Until": "Until", "AfterFunc": "AfterFunc", "Sleep": "Sleep"}

type stats struct {
	atomics, locks, onces, fs, times, loops, mapRanges, fieldReads, fieldWrites, gos, procs, https, rands int
}

var st stats
var warnings []string

func warnf(format string, args ...any) { warnings = append(warnings, fmt.Sprintf(format, args...)) }

func main() {
	flag.Parse()
	if *out == "" {
		fmt.Fprintln(os.Stderr, "simgen: -out required")
		os.Exit(2)
	}
	overlay := map[string]string{}
	genDir := filepath.Join(*out, "gen")
	if err := os.MkdirAll(genDir, 0777); err != nil {
		die(err)
	}
	noGoSet := map[string]bool{}
	for _, p := range strings.Split(*noGo, ",") {
		if p != "" {
			noGoSet[p] = true
		}
	}
	process := func(dir string, patterns []string, ticksOnly bool) {
		if len(patterns) == 0 {
			return
		}
		cfg := &packages.Config{
			Mode: packages.NeedName | packages.NeedFiles | packages.NeedCompiledGoFiles | packages.NeedSyntax |
				packages.NeedTypes | packages.NeedTypesInfo | packages.NeedImports,
			Dir: dir,
			Env: append(os.Environ(), "GOFLAGS=-mod=mod", "GOPROXY=off", "GOSUMDB=off", "GOTOOLCHAIN=local"),
		}
		pkgs, err := packages.Load(cfg, patterns...)
		if err != nil {
			die(err)
		}
		for _, p := range pkgs {
			if len(p.Errors) > 0 {
				for _, e := range p.Errors {
					fmt.Fprintf(os.Stderr, "simgen: %s: %v\n", p.PkgPath, e)
				}
				os.Exit(2)
			}
			for i, f := range p.Syntax {
				name := p.CompiledGoFiles[i]
				if !strings.HasPrefix(name, *repo+"/") {
					continue
				}
				r := &rewriter{fset: p.Fset, info: p.TypesInfo, pkg: p.Types, file: f, fname: name, goStmts: !noGoSet[p.PkgPath], ticksOnly: ticksOnly}
				if !r.rewrite() {
					continue
				}
				var buf bytes.Buffer
				if err := format.Node(&buf, p.Fset, f); err != nil {
					die(fmt.Errorf("printing %s: %v", name, err))
				}
				rel := strings.TrimPrefix(name, *repo+"/")
				dst := filepath.Join(genDir, rel)
				os.MkdirAll(filepath.Dir(dst), 0777)
				if err := os.WriteFile(dst, buf.Bytes(), 0666); err != nil {
					die(err)
				}
				overlay[name] = dst
			}
		}
	}
	process(*repo, splitList(*rootPkgs), false)
	process(*repo, splitList(*tickPkgs), true)
	process(filepath.Join(*repo, "godev"), splitList(*devPkgs), false)

	// Mount verif directories into the repository's tree.
	for _, m := range splitList(*mounts) {
		virt, real, ok := strings.Cut(m, "=")
		if !ok {
			die(fmt.Errorf("bad mount %q", m))
		}
		realDir := filepath.Join(*verif, real)
		ents, err := os.ReadDir(realDir)
		if err != nil {
			die(err)
		}
		for _, e := range ents {
			if e.IsDir() || !strings.HasSuffix(e.Name(), ".go") {
				continue
			}
			// Files named x_test.go in verif that must not be tests in the
			// target are not supported; files are mounted under their own name.
			overlay[filepath.Join(*repo, virt, e.Name())] = filepath.Join(realDir, e.Name())
		}
	}

	js, _ := json.MarshalIndent(map[string]any{"Replace": overlay}, "", " ")
	if err := os.WriteFile(filepath.Join(*out, "overlay.json"), js, 0666); err != nil {
		die(err)
	}
	sort.Strings(warnings)
	summary := map[string]any{
		"atomics": st.atomics, "locks": st.locks, "onces": st.onces, "fs": st.fs, "time": st.times, "loops": st.loops,
		"map_ranges": st.mapRanges, "field_reads": st.fieldReads, "field_writes": st.fieldWrites, "go_stmts": st.gos,
		"proc": st.procs, "http": st.https, "rand": st.rands, "files": len(overlay), "warnings": warnings,
	}
	js, _ = json.MarshalIndent(summary, "", " ")
	os.WriteFile(filepath.Join(*out, "simgen.json"), js, 0666)
	if *verbose {
		os.Stderr.Write(js)
		fmt.Fprintln(os.Stderr)
	}
}

func splitList(s string) []string {
	var r []string
	for _, x := range strings.Split(s, ",") {
		if x = strings.TrimSpace(x); x != "" {
			r = append(r, x)
		}
	}
	return r
}

func die(err error) {
	fmt.Fprintln(os.Stderr, "simgen:", err)
	os.Exit(2)
}

type rewriter struct {
	fset      *token.FileSet
	info      *types.Info
	pkg       *types.Package
	file      *ast.File
	fname     string
	goStmts   bool
	ticksOnly bool
	changed   bool
	nsym      int
	lhs       map[ast.Expr]bool
	addrOf    map[ast.Expr]bool
}

func (r *rewriter) sym(base string) string {
	r.nsym++
	return "sim" + base + strconv.Itoa(r.nsym)
}

func (r *rewriter) label(kind string, n ast.Node) ast.Expr {
	pos := r.fset.Position(n.Pos())
	return &ast.BasicLit{Kind: token.STRING, Value: strconv.Quote(fmt.Sprintf("%s @%s:%d", kind, filepath.Base(pos.Filename), pos.Line))}
}

func (r *rewriter) where(n ast.Node) string {
	pos := r.fset.Position(n.Pos())
	return fmt.Sprintf("%s:%d", filepath.Base(pos.Filename), pos.Line)
}

// atomicOperand returns the pointer expression an atomic call operates on and the
// operand's size, when that pointer is a value computed by the program (a
// conversion from unsafe.Pointer, a variable or a field of pointer type) rather
// than the address of an addressable variable; nil otherwise.
func (r *rewriter) atomicOperand(n *ast.CallExpr, recvExpr ast.Expr, recvType types.Type) (ast.Expr, int) {
	sizeOf := func(name string) int {
		switch {
		case strings.HasSuffix(name, "64"), name == "Uintptr", name == "Pointer", strings.HasSuffix(name, "Uintptr"), strings.HasSuffix(name, "Pointer"):
			return 8
		case strings.HasSuffix(name, "32"):
			return 4
		}
		return 0
	}
	pure := func(e ast.Expr) bool {
		ok := true
		ast.Inspect(e, func(x ast.Node) bool {
			if c, isCall := x.(*ast.CallExpr); isCall {
				// conversions are fine, calls are not evaluated twice
				if tv, found := r.info.Types[c.Fun]; !found || !tv.IsType() {
					ok = false
				}
			}
			return ok
		})
		return ok
	}
	if recvExpr != nil {
		t := r.info.TypeOf(recvExpr)
		if _, isPtr := t.(*types.Pointer); !isPtr || !pure(recvExpr) {
			return nil, 0
		}
		named, _ := t.(*types.Pointer).Elem().(*types.Named)
		if named == nil {
			return nil, 0
		}
		if sz := sizeOf(named.Obj().Name()); sz > 0 {
			return recvExpr, sz
		}
		return nil, 0
	}
	// function style: atomic.LoadUint32(p, ...)
	if len(n.Args) == 0 {
		return nil, 0
	}
	a := n.Args[0]
	if u, isAddr := ast.Unparen(a).(*ast.UnaryExpr); isAddr && u.Op == token.AND {
		return nil, 0
	}
	fn := typeutil.Callee(r.info, n)
	if fn == nil || !pure(a) {
		return nil, 0
	}
	if sz := sizeOf(fn.Name()); sz > 0 {
		return a, sz
	}
	return nil, 0
}

func simrtSel(name string) ast.Expr {
	return &ast.SelectorExpr{X: ast.NewIdent("simrt"), Sel: ast.NewIdent(name)}
}

func call(fun ast.Expr, args ...ast.Expr) *ast.CallExpr { return &ast.CallExpr{Fun: fun, Args: args} }

func isNamed(t types.Type, pkgPath, name string) bool {
	if p, ok := t.(*types.Pointer); ok {
		t = p.Elem()
	}
	n, ok := t.(*types.Named)
	if !ok {
		return false
	}
	o := n.Obj()
	return o != nil && o.Pkg() != nil && o.Pkg().Path() == pkgPath && o.Name() == name
}

// recvPtr returns an expression of pointer type for the receiver expression x.
func (r *rewriter) recvPtr(x ast.Expr) ast.Expr {
	if tv, ok := r.info.Types[x]; ok {
		if _, isPtr := tv.Type.Underlying().(*types.Pointer); isPtr {
			return x
		}
	}
	return &ast.UnaryExpr{Op: token.AND, X: x}
}

func (r *rewriter) rewrite() bool {
	r.lhs = map[ast.Expr]bool{}
	r.addrOf = map[ast.Expr]bool{}
	origIdents := map[*ast.Ident]bool{}
	ast.Inspect(r.file, func(n ast.Node) bool {
		if id, ok := n.(*ast.Ident); ok {
			origIdents[id] = true
		}
		return true
	})

	pre := func(c *astutil.Cursor) bool {
		switch n := c.Node().(type) {
		case *ast.AssignStmt:
			for _, l := range n.Lhs {
				r.markLHS(l)
			}
		case *ast.IncDecStmt:
			r.markLHS(n.X)
		case *ast.UnaryExpr:
			if n.Op == token.AND {
				r.addrOf[ast.Unparen(n.X)] = true
			}
		}
		return true
	}
	post := func(c *astutil.Cursor) bool {
		if r.ticksOnly {
			switch n := c.Node().(type) {
			case *ast.ForStmt:
				r.addTick(n.Body, n)
			case *ast.RangeStmt:
				r.addTick(n.Body, n)
			}
			return true
		}
		switch n := c.Node().(type) {
		case *ast.CallExpr:
			if nn := r.rewriteCall(n); nn != nil {
				c.Replace(nn)
				r.changed = true
			}
		case *ast.SelectorExpr:
			if r.isYieldField(n) && !r.lhs[n] && !r.addrOf[n] {
				// read: (*simrt.Rd(label, &x.f))
				nn := &ast.ParenExpr{X: &ast.StarExpr{X: call(simrtSel("Rd"), r.label("read "+types.ExprString(n), n), &ast.UnaryExpr{Op: token.AND, X: n})}}
				c.Replace(nn)
				st.fieldReads++
				r.changed = true
			}
		case *ast.AssignStmt:
			r.rewriteFieldWrite(c, n)
		case *ast.ForStmt:
			r.addTick(n.Body, n)
		case *ast.RangeStmt:
			r.addTick(n.Body, n)
			r.rewriteMapRange(c, n)
		case *ast.GoStmt:
			if r.goStmts {
				var fn ast.Expr
				if fl, ok := n.Call.Fun.(*ast.FuncLit); ok && len(n.Call.Args) == 0 && fl.Type.Results == nil {
					fn = fl
				} else {
					fn = &ast.FuncLit{Type: &ast.FuncType{Params: &ast.FieldList{}}, Body: &ast.BlockStmt{List: []ast.Stmt{&ast.ExprStmt{X: n.Call}}}}
					if len(n.Call.Args) > 0 {
						warnf("%s: go statement with arguments: evaluated when the task first runs", r.where(n))
					}
				}
				c.Replace(&ast.ExprStmt{X: call(simrtSel("Go"), r.label("go", n), fn)})
				st.gos++
				r.changed = true
			}
		}
		return true
	}
	astutil.Apply(r.file, pre, post)
	if !r.changed {
		return false
	}

	// Keep only comments that precede the package clause (build constraints,
	// licence) and //go: directives; positions of rewritten nodes would
	// otherwise let the printer drop comments into the middle of expressions.
	var keep []*ast.CommentGroup
	for _, cg := range r.file.Comments {
		if cg.End() < r.file.Package {
			keep = append(keep, cg)
			continue
		}
		for _, cm := range cg.List {
			if strings.HasPrefix(cm.Text, "//go:") {
				keep = append(keep, cg)
				break
			}
		}
	}
	r.file.Comments = keep

	// Imports that lost their last reference become blank imports.
	used := map[string]bool{}
	ast.Inspect(r.file, func(n ast.Node) bool {
		if id, ok := n.(*ast.Ident); ok && origIdents[id] {
			if pn, ok := r.info.Uses[id].(*types.PkgName); ok {
				used[pn.Imported().Path()] = true
			}
		}
		return true
	})
	for _, imp := range r.file.Imports {
		p, _ := strconv.Unquote(imp.Path.Value)
		if imp.Name != nil && (imp.Name.Name == "_" || imp.Name.Name == ".") {
			continue
		}
		if !used[p] {
			imp.Name = ast.NewIdent("_")
		}
	}
	astutil.AddNamedImport(r.fset, r.file, "simrt", simrtPath)
	return true
}

func (r *rewriter) markLHS(e ast.Expr) {
	e = ast.Unparen(e)
	if se, ok := e.(*ast.SelectorExpr); ok {
		r.lhs[se] = true
	}
}

func (r *rewriter) isYieldField(se *ast.SelectorExpr) bool {
	sel := r.info.Selections[se]
	if sel == nil || sel.Kind() != types.FieldVal {
		return false
	}
	v, ok := sel.Obj().(*types.Var)
	if !ok || !v.IsField() || v.Pkg() == nil {
		return false
	}
	recv := sel.Recv()
	if p, ok := recv.(*types.Pointer); ok {
		recv = p.Elem()
	}
	n, ok := recv.(*types.Named)
	if !ok {
		return false
	}
	if len(sel.Index()) != 1 {
		return false
	}
	return yieldFields[v.Pkg().Path()+"."+n.Obj().Name()+"."+v.Name()]
}

func (r *rewriter) rewriteFieldWrite(c *astutil.Cursor, n *ast.AssignStmt) {
	var target *ast.SelectorExpr
	for _, l := range n.Lhs {
		if se, ok := ast.Unparen(l).(*ast.SelectorExpr); ok && r.lhs[se] && r.isYieldField(se) {
			target = se
		}
	}
	if target == nil {
		return
	}
	lab := r.label("write "+types.ExprString(target), n)
	if len(n.Lhs) == 1 && len(n.Rhs) == 1 && n.Tok == token.ASSIGN {
		tmp := r.sym("w")
		blk := &ast.BlockStmt{List: []ast.Stmt{
			&ast.AssignStmt{Lhs: []ast.Expr{ast.NewIdent(tmp)}, Tok: token.DEFINE, Rhs: []ast.Expr{n.Rhs[0]}},
			&ast.ExprStmt{X: call(simrtSel("Yield"), lab)},
			&ast.AssignStmt{Lhs: []ast.Expr{n.Lhs[0]}, Tok: token.ASSIGN, Rhs: []ast.Expr{ast.NewIdent(tmp)}},
		}}
		c.Replace(blk)
		st.fieldWrites++
		r.changed = true
		return
	}
	if c.Index() >= 0 {
		c.InsertBefore(&ast.ExprStmt{X: call(simrtSel("Yield"), lab)})
		st.fieldWrites++
		r.changed = true
		return
	}
	warnf("%s: write of scheduling-point field not instrumented", r.where(n))
}

func (r *rewriter) addTick(body *ast.BlockStmt, n ast.Node) {
	if body == nil {
		return
	}
	tick := &ast.ExprStmt{X: call(simrtSel("Tick"), &ast.BasicLit{Kind: token.STRING, Value: strconv.Quote(r.where(n))})}
	body.List = append([]ast.Stmt{tick}, body.List...)
	st.loops++
	r.changed = true
}

func blank(e ast.Expr) bool {
	if e == nil {
		return true
	}
	id, ok := e.(*ast.Ident)
	return ok && id.Name == "_"
}

func (r *rewriter) rewriteMapRange(c *astutil.Cursor, n *ast.RangeStmt) {
	tv, ok := r.info.Types[n.X]
	if !ok {
		return
	}
	if _, isMap := tv.Type.Underlying().(*types.Map); !isMap {
		return
	}
	if _, labeled := c.Parent().(*ast.LabeledStmt); labeled {
		warnf("%s: labeled range over map not rewritten", r.where(n))
		return
	}
	m, k, v, okv := r.sym("m"), r.sym("k"), r.sym("v"), r.sym("ok")
	var prefix []ast.Stmt
	prefix = append(prefix,
		&ast.AssignStmt{Lhs: []ast.Expr{ast.NewIdent(v), ast.NewIdent(okv)}, Tok: token.DEFINE,
			Rhs: []ast.Expr{&ast.IndexExpr{X: ast.NewIdent(m), Index: ast.NewIdent(k)}}},
		&ast.IfStmt{Cond: &ast.UnaryExpr{Op: token.NOT, X: ast.NewIdent(okv)},
			Body: &ast.BlockStmt{List: []ast.Stmt{&ast.BranchStmt{Tok: token.CONTINUE}}}},
		&ast.AssignStmt{Lhs: []ast.Expr{ast.NewIdent("_")}, Tok: token.ASSIGN, Rhs: []ast.Expr{ast.NewIdent(v)}},
	)
	tok := n.Tok
	if tok == token.ILLEGAL {
		tok = token.ASSIGN
	}
	if !blank(n.Key) {
		prefix = append(prefix, &ast.AssignStmt{Lhs: []ast.Expr{n.Key}, Tok: tok, Rhs: []ast.Expr{ast.NewIdent(k)}})
		if tok == token.DEFINE {
			prefix = append(prefix, &ast.AssignStmt{Lhs: []ast.Expr{ast.NewIdent("_")}, Tok: token.ASSIGN, Rhs: []ast.Expr{n.Key}})
		}
	}
	if !blank(n.Value) {
		prefix = append(prefix, &ast.AssignStmt{Lhs: []ast.Expr{n.Value}, Tok: tok, Rhs: []ast.Expr{ast.NewIdent(v)}})
		if tok == token.DEFINE {
			prefix = append(prefix, &ast.AssignStmt{Lhs: []ast.Expr{ast.NewIdent("_")}, Tok: token.ASSIGN, Rhs: []ast.Expr{n.Value}})
		}
	}
	// The Tick inserted by addTick stays first.
	body := &ast.BlockStmt{List: append(append([]ast.Stmt{n.Body.List[0]}, prefix...), n.Body.List[1:]...)}
	loop := &ast.RangeStmt{
		Key: ast.NewIdent("_"), Value: ast.NewIdent(k), Tok: token.DEFINE,
		X:    call(simrtSel("MapKeys"), ast.NewIdent(m)),
		Body: body,
	}
	blk := &ast.BlockStmt{List: []ast.Stmt{
		&ast.AssignStmt{Lhs: []ast.Expr{ast.NewIdent(m)}, Tok: token.DEFINE, Rhs: []ast.Expr{n.X}},
		loop,
	}}
	c.Replace(blk)
	st.mapRanges++
	r.changed = true
}

func (r *rewriter) rewriteCall(n *ast.CallExpr) ast.Expr {
	obj := typeutil.Callee(r.info, n)
	fn, ok := obj.(*types.Func)
	if !ok || fn.Pkg() == nil {
		return nil
	}
	pkgPath := fn.Pkg().Path()
	sig := fn.Type().(*types.Signature)
	name := fn.Name()
	var recvExpr ast.Expr
	var recvType types.Type
	if sig.Recv() != nil {
		se, ok := ast.Unparen(n.Fun).(*ast.SelectorExpr)
		if !ok {
			return nil
		}
		if sel := r.info.Selections[se]; sel != nil && len(sel.Index()) > 1 {
			if pkgPath == "sync" || pkgPath == "sync/atomic" || pkgPath == "os" {
				warnf("%s: promoted method %s.%s not instrumented", r.where(n), pkgPath, name)
			}
			return nil
		}
		recvExpr = se.X
		recvType = sig.Recv().Type()
	}
	exprStr := types.ExprString(n.Fun)

	switch pkgPath {
	case "sync/atomic":
		st.atomics++
		// The operand of an atomic operation that is reached through a pointer
		// value (a cell of the mapped file, as opposed to a field the compiler
		// placed) must be naturally aligned: an unaligned 64-bit atomic panics on
		// 386/arm/mips and an unaligned atomic of either size faults on arm64
		// cores without LSE2, whatever this machine does with it.
		if ptr, size := r.atomicOperand(n, recvExpr, recvType); ptr != nil {
			n.Fun = call(simrtSel("PtAligned"), r.label("atomic "+exprStr, n), ptr, &ast.BasicLit{Kind: token.INT, Value: strconv.Itoa(size)}, n.Fun)
			return n
		}
		n.Fun = call(simrtSel("Pt"), r.label("atomic "+exprStr, n), n.Fun)
		return n
	case "sync":
		if recvExpr == nil {
			return nil
		}
		var helper string
		switch {
		case isNamed(recvType, "sync", "Mutex"):
			helper = map[string]string{"Lock": "MuLock", "Unlock": "MuUnlock", "TryLock": "MuTryLock"}[name]
		case isNamed(recvType, "sync", "RWMutex"):
			helper = map[string]string{"Lock": "RWLock", "Unlock": "RWUnlock", "RLock": "RWRLock", "RUnlock": "RWRUnlock"}[name]
		case isNamed(recvType, "sync", "Once"):
			helper = map[string]string{"Do": "OnceDo"}[name]
			if helper != "" {
				st.onces++
			}
		case isNamed(recvType, "sync", "WaitGroup"):
			helper = map[string]string{"Add": "WGAdd", "Done": "WGDone", "Wait": "WGWait"}[name]
		}
		if helper == "" {
			return nil
		}
		st.locks++
		args := append([]ast.Expr{r.label("sync "+exprStr, n), r.recvPtr(recvExpr)}, n.Args...)
		return call(simrtSel(helper), args...)
	case "golang.org/x/sync/errgroup":
		if recvExpr == nil || !isNamed(recvType, "golang.org/x/sync/errgroup", "Group") {
			return nil
		}
		helper := map[string]string{"Go": "GroupGo", "Wait": "GroupWait"}[name]
		if helper == "" {
			return nil
		}
		st.locks++
		args := append([]ast.Expr{r.label("group "+exprStr, n), r.recvPtr(recvExpr)}, n.Args...)
		return call(simrtSel(helper), args...)
	case "os":
		if recvExpr == nil {
			if h, ok := osFuncs[name]; ok {
				if strings.HasPrefix(h, "OS_") {
					st.fs++
				} else {
					st.procs++
				}
				n.Fun = simrtSel(h)
				return n
			}
			return nil
		}
		if isNamed(recvType, "os", "File") {
			if h, ok := fileMethods[name]; ok {
				st.fs++
				args := append([]ast.Expr{recvExpr}, n.Args...)
				return &ast.CallExpr{Fun: simrtSel(h), Args: args, Ellipsis: n.Ellipsis}
			}
		}
		return nil
	case "time":
		if recvExpr == nil {
			if h, ok := timeFuncs[name]; ok {
				st.times++
				n.Fun = simrtSel(h)
				return n
			}
		}
		return nil
	case "math/rand":
		if recvExpr == nil && name == "Intn" {
			st.rands++
			n.Fun = simrtSel("Intn")
			return n
		}
		return nil
	case "net/http":
		if recvExpr == nil && name == "Post" {
			st.https++
			n.Fun = simrtSel("HTTPPost")
			return n
		}
		return nil
	case "os/exec":
		if recvExpr != nil && isNamed(recvType, "os/exec", "Cmd") {
			if h := map[string]string{"Start": "CmdStart", "Wait": "CmdWait", "Run": "CmdRun"}[name]; h != "" {
				st.procs++
				return call(simrtSel(h), recvExpr)
			}
		}
		return nil
	case "log":
		if recvExpr == nil {
			if h := map[string]string{"Fatalf": "LogFatalf", "Fatal": "LogFatal", "Fatalln": "LogFatalln"}[name]; h != "" {
				st.procs++
				n.Fun = simrtSel(h)
				return n
			}
		}
		return nil
	}
	return nil
}
