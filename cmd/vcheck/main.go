// vcheck is the driver of verif's deterministic-simulation checks.
//
//	vcheck <property> [--tier quick|thorough] [--seed N] [--replay file]
//
// It generates the simulation build from /repo's current working tree, builds
// the property's harness, fans seeds out over worker processes, minimises the
// first violation, verifies that the minimised replay file reproduces it in a
// fresh process, consults known_findings.json and writes the evidence file.
//
// Exit status: 0 the property held on everything explored; 1 a violation that
// replays (with a VIOLATION line); 2 anything else (build failure, watchdog,
// worker crash, a replay that does not reproduce).
package main

import (
	"bufio"
	"bytes"
	"encoding/json"
	"flag"
	"fmt"
	"os"
	"os/exec"
	"path/filepath"
	"runtime"
	"sort"
	"strconv"
	"strings"
	"sync"
	"time"
)

// verifDir is the root of the verification framework: $VERIF_DIR, else the
// parent of the directory holding this executable (so that a snapshot of
// /verif is self-contained), else /verif. repoDir is $VERIF_REPO or /repo.
var verifDir = func() string {
	if d := os.Getenv("VERIF_DIR"); d != "" {
		return d
	}
	if exe, err := os.Executable(); err == nil {
		d := filepath.Dir(filepath.Dir(exe))
		if _, err := os.Stat(filepath.Join(d, "cmd", "vcheck")); err == nil {
			return d
		}
	}
	return "/verif"
}()

var repoDir = func() string {
	if d := os.Getenv("VERIF_REPO"); d != "" {
		return d
	}
	return "/repo"
}()

type violation struct {
	Property  string   `json:"property"`
	Invariant string   `json:"invariant"`
	Message   string   `json:"message"`
	Window    string   `json:"window,omitempty"`
	Trace     []string `json:"trace,omitempty"`
}

type runResult struct {
	Run       int             `json:"run"`
	Seed      uint64          `json:"seed"`
	Hash      uint64          `json:"hash"`
	Steps     int             `json:"steps"`
	Violation *violation      `json:"violation,omitempty"`
	Tape      []uint32        `json:"tape,omitempty"`
	Sample    json.RawMessage `json:"sample,omitempty"`
	Trace     []string        `json:"trace,omitempty"`
	Probes    map[string]int  `json:"probes,omitempty"`
	Faults    map[string]int  `json:"faults,omitempty"`
	ChunkFrom int             `json:"-"` // first run of the worker process that found it
	ChunkSeed uint64          `json:"-"` // the seed that worker was given (Seed is the run's own, derived from it)
}

type summary struct {
	Prop         string         `json:"prop"`
	Runs         int            `json:"runs"`
	Steps        int64          `json:"steps"`
	Hashes       []uint64       `json:"hashes"`
	Nontrivial   []uint64       `json:"nontrivial"`
	States       []uint64       `json:"states"`
	Probes       map[string]int `json:"probes"`
	Faults       map[string]int `json:"faults"`
	Notes        map[string]int `json:"notes"`
	SimSeconds   float64        `json:"sim_seconds"`
	Inconclusive int            `json:"inconclusive"`
	Samples      []runResult    `json:"samples"`
	Violation    *runResult     `json:"violation,omitempty"`
	WallS        float64        `json:"wall_s"`
	FsCalls      int64          `json:"fs_calls"`
	Requests     int64          `json:"requests"`
	Kills        int64          `json:"kills"`
}

type replayFile struct {
	Property  string            `json:"property"`
	Harness   string            `json:"harness"`
	Seed      uint64            `json:"seed"`
	Run       int               `json:"run"`
	Flags     map[string]string `json:"flags,omitempty"`
	Tape      []uint32          `json:"tape"`
	Violation *violation        `json:"violation,omitempty"`
	Trace     []string          `json:"trace,omitempty"`
	Note      string            `json:"note,omitempty"`
	// PrefixFrom, when set, says that the violation depends on what earlier runs
	// left behind in the process (state of the code under test that outlives a
	// run): the replay executes runs *PrefixFrom..Run of the seed in one process,
	// exactly as the worker that found it did.
	PrefixFrom *int   `json:"prefix_from,omitempty"`
	PrefixSeed uint64 `json:"prefix_seed,omitempty"`
}

type knownFinding struct {
	ID          string `json:"id"`
	Property    string `json:"property"`
	Status      string `json:"status"` // "known" or "fixed"
	Invariant   string `json:"invariant"`
	Window      string `json:"window,omitempty"`
	Replay      string `json:"replay,omitempty"`
	Commit      string `json:"commit,omitempty"`
	Description string `json:"description"`
}

var (
	tier     = flag.String("tier", envOr("VERIF_TIER", "quick"), "quick or thorough")
	seedFlag = flag.String("seed", envOr("VERIF_SEED", "1"), "base seed")
	replayF  = flag.String("replay", "", "replay a stored file and report whether it still violates")
	runsFlag = flag.Int("runs", 0, "override the number of runs")
	budgetF  = flag.Duration("budget", 0, "override the exploration wall-clock budget")
	workersF = flag.Int("workers", 0, "worker processes (default: number of CPUs)")
	keep     = flag.Bool("keep", false, "keep the scratch directory")
	noMin    = flag.Bool("nomin", false, "do not minimise")
	noQuar   = flag.Bool("noquarantine", false, "explore with known-finding windows open (for triage)")
	verbose  = flag.Bool("v", false, "verbose")
	selftest = flag.Int("selftest", 0, "determinism self-test: run this many seeds per family twice each at GOMAXPROCS 1, 4 and 16 in separate processes and compare event-log hashes")
)

func envOr(k, d string) string {
	if v := os.Getenv(k); v != "" {
		return v
	}
	return d
}

// evidenceOnAbort, when set, rewrites the property's evidence file to say that
// this run did not complete (so that the previous run's evidence cannot be
// taken for this one's).
var evidenceOnAbort func(reason string)

func fatal2(format string, args ...any) {
	msg := fmt.Sprintf(format, args...)
	fmt.Fprintf(os.Stderr, "vcheck: %s\n", msg)
	if evidenceOnAbort != nil {
		f := evidenceOnAbort
		evidenceOnAbort = nil
		f(firstLine(msg))
	}
	cleanup()
	os.Exit(2)
}

var scratch string

func cleanup() {
	if scratch != "" && !*keep {
		os.RemoveAll(scratch)
	}
}

func goEnv() []string {
	env := os.Environ()
	env = append(env, "GOFLAGS=-mod=mod", "GOPROXY=off", "GOSUMDB=off", "GOTOOLCHAIN=local")
	return env
}

func run(dir string, env []string, name string, args ...string) ([]byte, error) {
	cmd := exec.Command(name, args...)
	cmd.Dir = dir
	cmd.Env = env
	var out bytes.Buffer
	cmd.Stdout = &out
	cmd.Stderr = &out
	err := cmd.Run()
	return out.Bytes(), err
}

func main() {
	// Accept "vcheck C03 --tier quick" as well as flags first.
	args := os.Args[1:]
	var propID string
	var rest []string
	for _, a := range args {
		if propID == "" && !strings.HasPrefix(a, "-") && len(a) >= 3 && a[0] == 'C' {
			propID = a
			continue
		}
		rest = append(rest, a)
	}
	flag.CommandLine.Parse(rest)
	if propID == "" {
		fmt.Fprintln(os.Stderr, "usage: vcheck <property> [--tier quick|thorough] [--seed N] [--replay file]")
		os.Exit(2)
	}
	pc, ok := props[propID]
	if !ok {
		fmt.Fprintf(os.Stderr, "vcheck: no check for %s\n", propID)
		os.Exit(2)
	}
	seed, err := strconv.ParseUint(*seedFlag, 10, 64)
	if err != nil {
		// Accept any string as a seed.
		for _, c := range []byte(*seedFlag) {
			seed = seed*131 + uint64(c)
		}
	}
	if *tier != "quick" && *tier != "thorough" {
		*tier = "quick"
	}
	startWall := time.Now()
	// From here on a run that cannot be completed says so in the evidence file.
	if *replayF == "" && *selftest == 0 {
		evidenceOnAbort = func(reason string) {
			// No verdict, no evidence: the file of an earlier run must not be taken for
			// this run's (the schema has no way of saying "nothing was evaluated").
			os.Remove(filepath.Join(verifDir, "evidence", propID+".json"))
		}
	}

	base := os.Getenv("VERIF_SCRATCH")
	if base == "" {
		base = "/dev/shm"
	}
	scratch, err = os.MkdirTemp(base, "vcheck")
	if err != nil {
		fatal2("scratch: %v", err)
	}
	defer cleanup()

	bins := map[string]*harnessBin{}
	getBin := func(harness string) *harnessBin {
		if harness == "" {
			harness = pc.Harness
		}
		if b := bins[harness]; b != nil {
			return b
		}
		b := &harnessBin{pc: pc, harness: harness, bin: buildHarness(harness), prop: propID}
		bins[harness] = b
		return b
	}
	h := getBin("")

	harnessOf := func(path string) *harnessBin {
		var rf replayFile
		if data, err := os.ReadFile(path); err == nil && json.Unmarshal(data, &rf) == nil && rf.Harness != "" && harnesses[rf.Harness] != nil {
			return getBin(rf.Harness)
		}
		return h
	}
	if *replayF != "" {
		if abs, err := filepath.Abs(*replayF); err == nil {
			*replayF = abs // the harness runs in its scratch directory
		}
		rc := doReplay(harnessOf(*replayF), *replayF)
		cleanup()
		os.Exit(rc)
	}

	if *selftest > 0 {
		rc := doSelftest(getBin, pc, seed, *selftest)
		cleanup()
		os.Exit(rc)
	}

	// Known findings for this property.
	kfs := loadKnown(propID)
	var windows []string
	exit := 0
	for _, kf := range kfs {
		if kf.Status != "known" {
			continue
		}
		if kf.Window != "" {
			windows = append(windows, kf.Window)
		}
		state := "no stored replay"
		if kf.Replay != "" {
			res, err := harnessOf(filepath.Join(verifDir, kf.Replay)).replay(filepath.Join(verifDir, kf.Replay), map[string]string{"windows": "off"})
			switch {
			case err != nil:
				fatal2("replaying known finding %s: %v", kf.ID, err)
			case res.Violation != nil && res.Violation.Invariant == kf.Invariant:
				state = "reproduced on this tree"
			case res.Violation != nil:
				state = "stored replay now violates " + res.Violation.Invariant
			default:
				state = "not reproduced on this tree"
			}
		}
		fmt.Printf("KNOWN-FINDING: property=%s %s [%s] (%s)\n", propID, kf.Description, kf.ID, state)
	}
	sort.Strings(windows)

	// Stored replays of fixed findings and of seeded regressions must stay clean.
	// They are replayed with the known-finding windows of this property closed, as
	// the exploration is, and only the finding's own invariant counts as "back": a
	// stored tape that shows something else no longer means the run it was recorded
	// from (the generators moved on) and says nothing about the tree.
	var report []string // VIOLATION lines, printed at the end and only with exit status 1
	for _, kf := range kfs {
		if kf.Status == "fixed" && kf.Replay != "" {
			var extra map[string]string
			if len(windows) > 0 && !*noQuar {
				extra = map[string]string{"windows": strings.Join(windows, "+")}
			}
			res, err := harnessOf(filepath.Join(verifDir, kf.Replay)).replay(filepath.Join(verifDir, kf.Replay), extra)
			if err != nil {
				fatal2("replaying fixed finding %s: %v", kf.ID, err)
			}
			switch {
			case res.Violation != nil && res.Violation.Invariant == kf.Invariant:
				report = append(report, fmt.Sprintf("VIOLATION property=%s replay=%s\n  fixed finding %s is back: %s: %s", propID, filepath.Join(verifDir, kf.Replay), kf.ID, res.Violation.Invariant, firstLine(res.Violation.Message)))
				exit = 1
			case res.Violation != nil:
				fmt.Fprintf(os.Stderr, "vcheck: note: the stored replay of fixed finding %s is stale (it now shows %s, not %s); run tools/regen_all.sh\n", kf.ID, res.Violation.Invariant, kf.Invariant)
			}
		}
	}

	// Explore every family.
	agg := newAggregate()
	var firstViol *runResult
	var violFlags map[string]string
	for fi, fam := range pc.families() {
		runs := fam.Quick
		budget := pc.QuickBudget
		if *tier == "thorough" {
			runs = fam.Thorough
			budget = pc.ThoroughBudget
		}
		if *runsFlag > 0 {
			runs = *runsFlag
		}
		if *budgetF > 0 {
			budget = *budgetF
		}
		flags := map[string]string{"tier": *tier}
		for k, v := range fam.Flags {
			flags[k] = v
		}
		if len(windows) > 0 && !*noQuar {
			flags["windows"] = strings.Join(windows, "+")
		}
		fh := getBin(fam.Harness)
		v := fh.explore(seed+uint64(fi)*7919, runs, budget, flags, agg, fam.Name)
		if v != nil && firstViol == nil {
			firstViol = v
			violFlags = flags
			h = fh
			break
		}
	}

	var replayPath string
	if firstViol != nil {
		exit = 1
		tape := firstViol.Tape
		if !*noMin {
			tape = h.minimise(firstViol, violFlags)
		}
		replayPath = h.writeReplay(firstViol, tape, violFlags)
		report = append(report, fmt.Sprintf("VIOLATION property=%s replay=%s\n  invariant: %s\n  %s", propID, replayPath, firstViol.Violation.Invariant, strings.ReplaceAll(firstViol.Violation.Message, "\n", "\n  ")))
	}
	evidenceOnAbort = nil
	for _, l := range report {
		fmt.Println(l)
	}

	writeEvidence(propID, pc, seed, agg, time.Since(startWall), exit, windows)
	if exit == 0 {
		fmt.Printf("OK property=%s tier=%s seed=%d runs=%d distinct=%d nontrivial=%d steps=%d wall=%.1fs\n",
			propID, *tier, seed, agg.runs, len(agg.hashes), len(agg.nontrivial), agg.steps, time.Since(startWall).Seconds())
	}
	cleanup()
	os.Exit(exit)
}

func firstLine(s string) string {
	if i := strings.IndexByte(s, '\n'); i >= 0 {
		return s[:i]
	}
	return s
}

// ---------------------------------------------------------------- build

func buildHarness(harness string) string {
	env := goEnv()
	simgen := filepath.Join(verifDir, "bin", "simgen")
	if _, err := os.Stat(simgen); err != nil {
		if out, err := run(verifDir, env, "go", "build", "-o", simgen, "./cmd/simgen"); err != nil {
			fatal2("building simgen: %v\n%s", err, out)
		}
	}
	hc := harnesses[harness]
	outDir := filepath.Join(scratch, "gen-"+harness)
	os.MkdirAll(outDir, 0777)
	args := []string{"-out", outDir, "-repo", repoDir, "-verif", verifDir, "-mount", strings.Join(hc.Mounts, ",")}
	if hc.RootPkgs != "" {
		args = append(args, "-pkgs", hc.RootPkgs)
	}
	if hc.TickPkgs != "" {
		args = append(args, "-tickpkgs", hc.TickPkgs)
	}
	if hc.DevPkgs != "" {
		args = append(args, "-godevpkgs", hc.DevPkgs)
	}
	if out, err := run(verifDir, env, simgen, args...); err != nil {
		fatal2("generating the simulation build failed (not a property violation): %v\n%s", err, out)
	}
	bin := filepath.Join(scratch, harness)
	overlay := filepath.Join(outDir, "overlay.json")
	dir := repoDir
	if hc.Module == "godev" {
		dir = filepath.Join(repoDir, "godev")
	}
	var out []byte
	var err error
	if hc.TestHosted {
		out, err = run(dir, env, "go", "test", "-c", "-vet=off", "-overlay", overlay, "-o", bin, hc.Package)
	} else {
		out, err = run(dir, env, "go", "build", "-overlay", overlay, "-o", bin, hc.Package)
	}
	if err != nil {
		fatal2("building harness %s failed (not a property violation): %v\n%s", harness, err, out)
	}
	return bin
}

type harnessBin struct {
	pc      *propConfig
	harness string
	bin     string
	prop    string
}

func (h *harnessBin) cmd(args ...string) *exec.Cmd {
	hc := harnesses[h.harness]
	var full []string
	if hc.TestHosted {
		full = append(full, "-test.run", "^TestVerifSim$", "-test.timeout", "0", "--")
	}
	full = append(full, "-prop", h.prop)
	full = append(full, args...)
	cmd := exec.Command(h.bin, full...)
	cmd.Env = append(os.Environ(), "VERIF_SCRATCH="+scratch, "GOTRACEBACK=single")
	cmd.Dir = scratch
	return cmd
}

func flagString(flags map[string]string) string {
	var kv []string
	for k, v := range flags {
		kv = append(kv, k+"="+v)
	}
	sort.Strings(kv)
	return strings.Join(kv, ",")
}

// ---------------------------------------------------------------- explore

type aggregate struct {
	mu           sync.Mutex
	runs         int
	steps        int64
	hashes       map[uint64]bool
	nontrivial   map[uint64]bool
	states       map[uint64]bool
	probes       map[string]int
	faults       map[string]int
	notes        map[string]int
	simSeconds   float64
	inconclusive int
	samples      []runResult
	fsCalls      int64
	requests     int64
	kills        int64
	families     map[string]int
	workerWall   float64
}

func newAggregate() *aggregate {
	return &aggregate{hashes: map[uint64]bool{}, nontrivial: map[uint64]bool{}, states: map[uint64]bool{}, probes: map[string]int{},
		faults: map[string]int{}, notes: map[string]int{}, families: map[string]int{}}
}

func (a *aggregate) add(s *summary, fam string) {
	a.mu.Lock()
	defer a.mu.Unlock()
	a.runs += s.Runs
	a.steps += s.Steps
	for _, h := range s.Hashes {
		a.hashes[h] = true
	}
	for _, h := range s.Nontrivial {
		a.nontrivial[h] = true
	}
	for _, h := range s.States {
		a.states[h] = true
	}
	for k, v := range s.Probes {
		a.probes[k] += v
	}
	for k, v := range s.Faults {
		a.faults[k] += v
	}
	for k, v := range s.Notes {
		a.notes[k] += v
	}
	a.simSeconds += s.SimSeconds
	a.inconclusive += s.Inconclusive
	a.fsCalls += s.FsCalls
	a.requests += s.Requests
	a.kills += s.Kills
	a.families[fam] += s.Runs
	a.workerWall += s.WallS
	if len(a.samples) < 3 && len(s.Samples) > 0 {
		a.samples = append(a.samples, s.Samples[0])
	}
}

func (h *harnessBin) explore(seed uint64, runs int, budget time.Duration, flags map[string]string, agg *aggregate, fam string) *runResult {
	workers := *workersF
	if workers <= 0 {
		workers = runtime.NumCPU()
	}
	chunk := h.pc.Chunk
	if chunk <= 0 {
		chunk = 100
	}
	if runs < workers*chunk {
		chunk = (runs + workers - 1) / workers
		if chunk < 1 {
			chunk = 1
		}
	}
	type job struct{ from, to int }
	jobs := make(chan job, runs/chunk+2)
	for a := 0; a < runs; a += chunk {
		b := a + chunk
		if b > runs {
			b = runs
		}
		jobs <- job{a, b}
	}
	close(jobs)
	deadline := time.Now().Add(budget)
	var mu sync.Mutex
	var best *runResult
	var wg sync.WaitGroup
	var failure string
	stop := false
	for i := 0; i < workers; i++ {
		wg.Add(1)
		go func() {
			defer wg.Done()
			for j := range jobs {
				mu.Lock()
				st := stop
				mu.Unlock()
				if st || time.Now().After(deadline) {
					continue
				}
				remain := time.Until(deadline)
				cmd := h.cmd("-seed", strconv.FormatUint(seed, 10), "-from", strconv.Itoa(j.from), "-to", strconv.Itoa(j.to),
					"-flags", flagString(flags), "-budget", remain.String())
				var out, errb bytes.Buffer
				cmd.Stdout = &out
				cmd.Stderr = &errb
				done := make(chan error, 1)
				if err := cmd.Start(); err != nil {
					mu.Lock()
					failure = "starting worker: " + err.Error()
					stop = true
					mu.Unlock()
					return
				}
				go func() { done <- cmd.Wait() }()
				var err error
				select {
				case err = <-done:
				case <-time.After(remain + h.pc.watchdog()):
					cmd.Process.Kill()
					<-done
					mu.Lock()
					failure = fmt.Sprintf("watchdog: worker for runs %d..%d did not finish (not a property verdict)", j.from, j.to)
					stop = true
					mu.Unlock()
					return
				}
				if err != nil {
					mu.Lock()
					failure = fmt.Sprintf("worker for runs %d..%d failed: %v\n%s", j.from, j.to, err, tail(errb.String(), 4000))
					stop = true
					mu.Unlock()
					return
				}
				var s summary
				if e := json.Unmarshal(lastJSONLine(out.Bytes()), &s); e != nil {
					mu.Lock()
					failure = fmt.Sprintf("worker output not understood: %v\n%s\n%s", e, tail(out.String(), 2000), tail(errb.String(), 2000))
					stop = true
					mu.Unlock()
					return
				}
				agg.add(&s, fam)
				if s.Violation != nil {
					s.Violation.ChunkFrom = j.from
					s.Violation.ChunkSeed = seed
					mu.Lock()
					if best == nil || s.Violation.Run < best.Run {
						best = s.Violation
					}
					stop = true
					mu.Unlock()
				}
			}
		}()
	}
	wg.Wait()
	if failure != "" {
		fatal2("%s", failure)
	}
	return best
}

func tail(s string, n int) string {
	if len(s) > n {
		return "..." + s[len(s)-n:]
	}
	return s
}

// lastJSONLine returns the last line that starts with '{' (a test-hosted
// harness also prints PASS / ok lines).
func lastJSONLine(b []byte) []byte {
	lines := bytes.Split(bytes.TrimSpace(b), []byte("\n"))
	for i := len(lines) - 1; i >= 0; i-- {
		l := bytes.TrimSpace(lines[i])
		if len(l) > 0 && l[0] == '{' {
			return l
		}
	}
	return b
}

// ---------------------------------------------------------------- replay

func (h *harnessBin) replay(path string, extra map[string]string) (*runResult, error) {
	var rf replayFile
	if data, err := os.ReadFile(path); err == nil && json.Unmarshal(data, &rf) == nil && rf.PrefixFrom != nil {
		flags := map[string]string{}
		for k, v := range rf.Flags {
			flags[k] = v
		}
		for k, v := range extra {
			flags[k] = v
		}
		return h.replayPrefix(rf.PrefixSeed, *rf.PrefixFrom, rf.Run, flags)
	}
	args := []string{"-replay", path}
	if len(extra) > 0 {
		args = append(args, "-flags", flagString(extra))
	}
	cmd := h.cmd(args...)
	var out, errb bytes.Buffer
	cmd.Stdout = &out
	cmd.Stderr = &errb
	if err := runTimeout(cmd, 5*time.Minute); err != nil {
		return nil, fmt.Errorf("%v\n%s", err, tail(errb.String(), 3000))
	}
	var r runResult
	if err := json.Unmarshal(lastJSONLine(out.Bytes()), &r); err != nil {
		return nil, fmt.Errorf("replay output not understood: %v\n%s", err, tail(out.String(), 2000))
	}
	return &r, nil
}

// replayPrefix re-executes runs from..run of a seed in one fresh process and
// returns the outcome of the last of them.
func (h *harnessBin) replayPrefix(seed uint64, from, run int, flags map[string]string) (*runResult, error) {
	cmd := h.cmd("-seed", strconv.FormatUint(seed, 10), "-from", strconv.Itoa(from), "-to", strconv.Itoa(run+1), "-flags", flagString(flags), "-budget", "1h")
	var out, errb bytes.Buffer
	cmd.Stdout = &out
	cmd.Stderr = &errb
	if err := runTimeout(cmd, 15*time.Minute); err != nil {
		return nil, fmt.Errorf("%v\n%s", err, tail(errb.String(), 3000))
	}
	var s summary
	if err := json.Unmarshal(lastJSONLine(out.Bytes()), &s); err != nil {
		return nil, fmt.Errorf("replay output not understood: %v\n%s", err, tail(out.String(), 2000))
	}
	if s.Violation != nil {
		if s.Violation.Run != run {
			return nil, fmt.Errorf("replay of runs %d..%d stopped at run %d with %s", from, run, s.Violation.Run, s.Violation.Violation.Invariant)
		}
		return s.Violation, nil
	}
	return &runResult{Run: run}, nil
}

func runTimeout(cmd *exec.Cmd, d time.Duration) error {
	if err := cmd.Start(); err != nil {
		return err
	}
	done := make(chan error, 1)
	go func() { done <- cmd.Wait() }()
	select {
	case err := <-done:
		return err
	case <-time.After(d):
		cmd.Process.Kill()
		<-done
		return fmt.Errorf("timed out after %s", d)
	}
}

func doReplay(h *harnessBin, path string) int {
	res, err := h.replay(path, nil)
	if err != nil {
		fatal2("replay: %v", err)
	}
	for _, l := range res.Trace {
		fmt.Println(l)
	}
	if res.Violation != nil {
		fmt.Printf("VIOLATION property=%s replay=%s\n", h.prop, path)
		fmt.Printf("  invariant: %s\n  %s\n", res.Violation.Invariant, strings.ReplaceAll(res.Violation.Message, "\n", "\n  "))
		return 1
	}
	fmt.Printf("replay of %s: no violation on this tree (hash %d, %d steps)\n", path, res.Hash, res.Steps)
	return 0
}

// ---------------------------------------------------------------- minimise

type batchProc struct {
	cmd *exec.Cmd
	in  *bufio.Writer
	out *bufio.Scanner
	n   int
}

func (h *harnessBin) startBatch(flags map[string]string) *batchProc {
	cmd := h.cmd("-batch", "-flags", flagString(flags))
	stdin, _ := cmd.StdinPipe()
	stdout, _ := cmd.StdoutPipe()
	cmd.Stderr = os.Stderr
	if err := cmd.Start(); err != nil {
		return nil
	}
	sc := bufio.NewScanner(stdout)
	sc.Buffer(make([]byte, 1<<20), 1<<28)
	return &batchProc{cmd: cmd, in: bufio.NewWriter(stdin), out: sc}
}

func (b *batchProc) try(tape []uint32) (*runResult, bool) {
	js, _ := json.Marshal(tape)
	b.in.Write(js)
	b.in.WriteByte('\n')
	if err := b.in.Flush(); err != nil {
		return nil, false
	}
	done := make(chan bool, 1)
	var res runResult
	go func() {
		for b.out.Scan() {
			l := bytes.TrimSpace(b.out.Bytes())
			if len(l) > 0 && l[0] == '{' {
				done <- json.Unmarshal(l, &res) == nil
				return
			}
		}
		done <- false
	}()
	select {
	case ok := <-done:
		b.n++
		return &res, ok
	case <-time.After(2 * time.Minute):
		b.cmd.Process.Kill()
		return nil, false
	}
}

func (b *batchProc) stop() {
	if b == nil {
		return
	}
	b.cmd.Process.Kill()
	b.cmd.Wait()
}

// minimise shrinks the choice tape by delta debugging: cut the tail, zero
// chunks, delete chunks, lower values; a candidate is kept only if the run still
// ends in a violation of the same invariant of the same property.
func (h *harnessBin) minimise(v *runResult, flags map[string]string) []uint32 {
	budget := 45 * time.Second
	if *tier == "thorough" {
		budget = 4 * time.Minute
	}
	deadline := time.Now().Add(budget)
	want := v.Violation.Invariant
	cur := append([]uint32(nil), v.Tape...)
	bp := h.startBatch(flags)
	if bp == nil {
		return cur
	}
	defer func() {
		if bp != nil {
			bp.stop()
		}
	}()
	tries := 0
	test := func(t []uint32) bool {
		if bp == nil || time.Now().After(deadline) {
			return false
		}
		if bp.n > 150 { // recycle the process: parked goroutines accumulate
			bp.stop()
			bp = h.startBatch(flags)
			if bp == nil {
				return false
			}
		}
		tries++
		res, ok := bp.try(t)
		if !ok {
			bp.stop()
			bp = h.startBatch(flags)
			return false
		}
		return res.Violation != nil && res.Violation.Invariant == want
	}
	if !test(cur) {
		fmt.Fprintf(os.Stderr, "vcheck: note: violation did not reproduce in the minimiser's batch process; keeping the original tape\n")
		return cur
	}
	// 1. shortest prefix (past the end every choice is 0)
	lo, hi := 0, len(cur)
	for lo < hi {
		mid := (lo + hi) / 2
		if test(cur[:mid]) {
			hi = mid
		} else {
			lo = mid + 1
		}
	}
	if hi < len(cur) && test(cur[:hi]) {
		cur = append([]uint32(nil), cur[:hi]...)
	}
	improved := true
	for improved && time.Now().Before(deadline) {
		improved = false
		// 2. zero chunks, 3. delete chunks
		for size := len(cur) / 2; size >= 1; size /= 2 {
			for start := 0; start+size <= len(cur); {
				allZero := true
				for _, x := range cur[start : start+size] {
					if x != 0 {
						allZero = false
					}
				}
				// delete
				cand := append(append([]uint32(nil), cur[:start]...), cur[start+size:]...)
				if test(cand) {
					cur = cand
					improved = true
					continue
				}
				if !allZero {
					cand = append([]uint32(nil), cur...)
					for i := start; i < start+size; i++ {
						cand[i] = 0
					}
					if test(cand) {
						cur = cand
						improved = true
					}
				}
				start += size
				if time.Now().After(deadline) {
					break
				}
			}
		}
		// 4. lower single values
		for i := 0; i < len(cur) && time.Now().Before(deadline); i++ {
			for cur[i] > 0 {
				cand := append([]uint32(nil), cur...)
				if cand[i] > 1 {
					cand[i] = cand[i] / 2
				} else {
					cand[i] = 0
				}
				if test(cand) {
					cur = cand
					improved = true
				} else {
					break
				}
			}
		}
		// trailing zeros carry no information
		for len(cur) > 0 && cur[len(cur)-1] == 0 {
			cur = cur[:len(cur)-1]
		}
	}
	if *verbose {
		fmt.Fprintf(os.Stderr, "vcheck: minimised tape %d -> %d choices in %d executions\n", len(v.Tape), len(cur), tries)
	}
	return cur
}

func (h *harnessBin) writeReplay(v *runResult, tape []uint32, flags map[string]string) string {
	dir := filepath.Join(verifDir, "replays", h.prop)
	os.MkdirAll(dir, 0777)
	path := filepath.Join(dir, fmt.Sprintf("%s-seed%d-run%d.json", h.prop, v.Seed, v.Run))
	rf := replayFile{Property: h.prop, Harness: h.harness, Seed: v.Seed, Run: v.Run, Flags: flags, Tape: tape, Violation: v.Violation}
	write := func() {
		js, _ := json.MarshalIndent(rf, "", " ")
		if err := os.WriteFile(path, js, 0666); err != nil {
			fatal2("writing replay: %v", err)
		}
	}
	write()
	// Replay in a fresh process: it must fail the same way.
	res, err := h.replay(path, nil)
	if err != nil {
		fatal2("replaying %s: %v", path, err)
	}
	if res.Violation == nil || res.Violation.Invariant != v.Violation.Invariant {
		// Fall back to the unminimised tape before giving up.
		rf.Tape = v.Tape
		write()
		res, err = h.replay(path, nil)
		if err != nil || res.Violation == nil || res.Violation.Invariant != v.Violation.Invariant {
			// The outcome may depend on what the earlier runs of the worker
			// process left in the code under test (a package-level cache or
			// pool): replay those runs too, in one fresh process, twice.
			from := v.ChunkFrom
			r1, e1 := h.replayPrefix(v.ChunkSeed, from, v.Run, flags)
			r2, e2 := h.replayPrefix(v.ChunkSeed, from, v.Run, flags)
			if e1 == nil && e2 == nil && r1.Violation != nil && r2.Violation != nil && r1.Violation.Invariant == v.Violation.Invariant && r2.Violation.Invariant == v.Violation.Invariant {
				rf.PrefixFrom = &from
				rf.PrefixSeed = v.ChunkSeed
				rf.Note = fmt.Sprintf("run %d alone does not show the violation: it depends on state that runs %d..%d left in the process; the replay executes them all", v.Run, from, v.Run-1)
				rf.Violation = r1.Violation
				rf.Trace = r1.Trace
				if len(rf.Trace) > 400 {
					rf.Trace = rf.Trace[len(rf.Trace)-400:]
				}
				rf.Violation.Trace = nil
				write()
				return path
			}
			fatal2("MACHINERY BUG: violation %q of %s found at seed %d run %d does not reproduce from its replay file %s; nothing is reported",
				v.Violation.Invariant, h.prop, v.Seed, v.Run, path)
		}
	}
	rf.Violation = res.Violation
	rf.Trace = res.Trace
	if len(rf.Trace) > 400 {
		rf.Trace = append([]string{fmt.Sprintf("... (%d earlier lines omitted)", len(rf.Trace)-400)}, rf.Trace[len(rf.Trace)-400:]...)
	}
	rf.Violation.Trace = nil
	write()
	return path
}

// ---------------------------------------------------------------- known findings

func loadKnown(prop string) []knownFinding {
	data, err := os.ReadFile(filepath.Join(verifDir, "known_findings.json"))
	if err != nil {
		return nil
	}
	var all struct {
		Findings []knownFinding `json:"findings"`
	}
	if err := json.Unmarshal(data, &all); err != nil {
		fatal2("known_findings.json: %v", err)
	}
	var r []knownFinding
	for _, k := range all.Findings {
		if k.Property == prop {
			r = append(r, k)
		}
	}
	return r
}

// ---------------------------------------------------------------- evidence

func workersUsed() int {
	if *workersF > 0 {
		return *workersF
	}
	return runtime.NumCPU()
}

func writeEvidence(prop string, pc *propConfig, seed uint64, a *aggregate, wall time.Duration, exit int, windows []string) {
	dn := len(a.nontrivial)
	var samples []any
	for _, s := range a.samples {
		tr := s.Trace
		if len(tr) > 40 {
			tr = append(append([]string{}, tr[:40]...), fmt.Sprintf("... (%d more steps)", len(s.Trace)-40))
		}
		samples = append(samples, map[string]any{"seed": s.Seed, "run": s.Run, "case": s.Sample, "steps": s.Steps, "trace_hash": s.Hash, "trace_head": tr})
	}
	if len(samples) == 0 {
		samples = append(samples, "no run completed")
	}
	runsPerHour := 0.0
	if wall.Seconds() > 0 {
		runsPerHour = float64(a.runs) / wall.Seconds() * 3600
	}
	var zeroProbes []string
	for _, p := range pc.Probes {
		if a.probes[p]+a.notes[p] == 0 {
			zeroProbes = append(zeroProbes, p)
		}
	}
	for _, p := range zeroProbes {
		fmt.Fprintf(os.Stderr, "vcheck: warning: probe %q was never hit in this batch\n", p)
	}
	cov := map[string]any{
		"evaluations":         a.runs,
		"distinct_nontrivial": dn,
		"rule":                pc.Rule,
		"samples":             samples,
		"distinct_traces":     len(a.hashes),
		"distinct_states":     len(a.states),
		"scheduler_steps":     a.steps,
		"fs_calls":            a.fsCalls,
		"http_requests":       a.requests,
		"kills":               a.kills,
		"faults_fired":        a.faults,
		"probes":              a.probes,
		"notes":               a.notes,
		"probes_never_hit":    zeroProbes,
		"simulated_seconds":   a.simSeconds,
		"runs_per_hour":       runsPerHour,
		"inconclusive_runs":   a.inconclusive,
		"families":            a.families,
		"components_real":     pc.Real,
		"components_stub":     pc.Stub,
		"quarantined_windows": windows,
		"workers":             workersUsed(),
	}
	if n := a.notes["executions"]; n > 0 {
		cov["evaluations"] = n
		cov["seeded_workloads"] = a.runs
	}
	ev := map[string]any{
		"property_id": prop,
		"tier":        *tier,
		"seed":        seed,
		"level":       pc.Level,
		"coverage":    cov,
		"assumptions": pc.Assumptions,
		"wall_s":      wall.Seconds(),
		"violations":  exit,
	}
	js, _ := json.MarshalIndent(ev, "", " ")
	os.MkdirAll(filepath.Join(verifDir, "evidence"), 0777)
	if err := os.WriteFile(filepath.Join(verifDir, "evidence", prop+".json"), js, 0666); err != nil {
		fatal2("writing evidence: %v", err)
	}
}

// doSelftest proves determinism on a sample: every chunk of seeds is executed
// six times in separate OS processes (twice at each of GOMAXPROCS 1, 4, 16) and
// the per-run event-log hashes must be identical.
func doSelftest(getBin func(string) *harnessBin, pc *propConfig, seed uint64, n int) int {
	bad := 0
	total := 0
	for fi, fam := range pc.families() {
		h := getBin(fam.Harness)
		flags := map[string]string{"tier": *tier}
		for k, v := range fam.Flags {
			flags[k] = v
		}
		var windows []string
		for _, kf := range loadKnown(h.prop) {
			if kf.Status == "known" && kf.Window != "" {
				windows = append(windows, kf.Window)
			}
		}
		sort.Strings(windows)
		if len(windows) > 0 {
			flags["windows"] = strings.Join(windows, "+")
		}
		const chunk = 5
		type job struct{ from, to int }
		var jobs []job
		for a := 0; a < n; a += chunk {
			jobs = append(jobs, job{a, a + chunk})
		}
		var mu sync.Mutex
		var wg sync.WaitGroup
		sem := make(chan struct{}, runtime.NumCPU())
		for _, j := range jobs {
			wg.Add(1)
			sem <- struct{}{}
			go func(j job) {
				defer wg.Done()
				defer func() { <-sem }()
				var ref string
				for rep, gmp := range []string{"1", "1", "4", "4", "16", "16"} {
					cmd := h.cmd("-seed", strconv.FormatUint(seed+uint64(fi)*7919, 10), "-from", strconv.Itoa(j.from), "-to", strconv.Itoa(j.to), "-flags", flagString(flags))
					cmd.Env = append(cmd.Env, "VERIF_GOMAXPROCS="+gmp)
					var out, errb bytes.Buffer
					cmd.Stdout, cmd.Stderr = &out, &errb
					if err := runTimeout(cmd, 5*time.Minute); err != nil {
						mu.Lock()
						fmt.Printf("selftest: worker failed: %v\n%s\n", err, tail(errb.String(), 1000))
						bad++
						mu.Unlock()
						return
					}
					var s summary
					json.Unmarshal(lastJSONLine(out.Bytes()), &s)
					sig := fmt.Sprint(s.Hashes, s.Steps, s.Runs)
					if rep == 0 {
						ref = sig
					} else if sig != ref {
						mu.Lock()
						fmt.Printf("NONDETERMINISM property=%s family=%s runs %d..%d: execution %d (GOMAXPROCS=%s) differs from the first\n  first: %s\n  this:  %s\n", h.prop, fam.Name, j.from, j.to, rep, gmp, tail(ref, 300), tail(sig, 300))
						bad++
						mu.Unlock()
					}
				}
				mu.Lock()
				total += j.to - j.from
				mu.Unlock()
			}(j)
		}
		wg.Wait()
	}
	if bad > 0 {
		fmt.Printf("DETERMINISM FAILED property=%s mismatching chunks=%d\n", pc.Harness, bad)
		return 2
	}
	fmt.Printf("DETERMINISM ok: %d seeds x 6 executions (GOMAXPROCS 1,1,4,4,16,16, separate processes), all event-log hashes equal\n", total)
	return 0
}
