package main

import "time"

type harnessConfig struct {
	Package    string   // import path (main package) or directory pattern (test hosted)
	Module     string   // "" root module, "godev"
	TestHosted bool     // harness is a _test.go file overlaid into an existing package
	RootPkgs   string   // simgen -pkgs
	DevPkgs    string   // simgen -godevpkgs
	Mounts     []string // virtual=real
}

const rootInstrumented = "./internal/counter,./internal/mmap,./internal/telemetry,./internal/upload,.,./cmd/gotelemetry,./counter"

var commonMounts = []string{
	"internal/verifsim/simrt=sim/simrt",
	"internal/verifsim/hlib=sim/hlib",
	"internal/verifsim/ref/refformat=sim/ref/refformat",
	"internal/verifsim/ref/refcal=sim/ref/refcal",
	"internal/verifsim/ref/refstack=sim/ref/refstack",
}

var harnesses = map[string]*harnessConfig{
	"h1": {
		Package:  "golang.org/x/telemetry/internal/verifsim/h1",
		RootPkgs: "./internal/counter,./internal/mmap,./internal/telemetry",
		Mounts: append(append([]string{}, commonMounts...),
			"internal/verifsim/h1=sim/harness/h1",
			"internal/counter=sim/shims/counter"),
	},
}

type family struct {
	Name     string
	Flags    map[string]string
	Quick    int
	Thorough int
}

type propConfig struct {
	Harness        string
	Level          string
	Families       []family
	QuickBudget    time.Duration
	ThoroughBudget time.Duration
	Chunk          int
	Rule           string
	Real           []string
	Stub           []string
	Assumptions    []string
	Probes         []string
}

func (p *propConfig) families() []family { return p.Families }

func (p *propConfig) watchdog() time.Duration { return 3 * time.Minute }

var props = map[string]*propConfig{
	"C03": {
		Harness: "h1", Level: "exploration",
		Families: []family{
			{Name: "plain", Flags: map[string]string{"family": "plain"}, Quick: 4000, Thorough: 600000},
			{Name: "saturation", Flags: map[string]string{"family": "saturation"}, Quick: 600, Thorough: 60000},
		},
		QuickBudget: 90 * time.Second, ThoroughBudget: 25 * time.Minute, Chunk: 125,
		Rule: "one run = one seeded execution of 2..4 threads x 1..6 counters (shared, private, same-name aliases, long names that cross pages, stack counters) with a concurrent first open, file growth and clock-driven rotation, scheduled at the granularity of single atomic operations, lock acquisitions and Counter.ptr accesses; distinct = distinct event-log hash; non-trivial = at least one context switch between live tasks",
		Real: []string{"internal/counter (all of it, instrumented build generated from the working tree)", "internal/mmap", "internal/telemetry", "Linux tmpfs and mmap(MAP_SHARED)"},
		Stub: []string{"munmap replaced by mprotect(PROT_NONE) so that use-after-unmap faults deterministically", "Go scheduler (replaced by the tape-driven scheduler)", "wall clock"},
		Assumptions: []string{
			"interleavings are explored at the yield points simgen inserts (every sync/atomic operation, mutex, once, Counter.ptr access, file-system call); code between two yield points is treated as atomic",
			"sequentially consistent memory: weak-memory reorderings are not explored",
			"sampling, not enumeration: a clean batch is evidence, not proof",
		},
		Probes: []string{"clock-jump"},
	},
	"C04": {
		Harness: "h1", Level: "exploration",
		Families: []family{
			{Name: "kills", Flags: map[string]string{"family": "kills"}, Quick: 2400, Thorough: 400000},
		},
		QuickBudget: 90 * time.Second, ThoroughBudget: 25 * time.Minute, Chunk: 50,
		Rule: "one run = 2..4 simulated processes (independent counter.file objects and mappings of one shared file, 1..2 threads each) incrementing names drawn from a pool with same-name, same-bucket (colliding), page-crossing and page-end-sized names, scheduled at single-atomic-operation granularity, with 0..3 kills placed at a random step or right after the victim's k-th limit CAS / head CAS / record write / extension write / mmap; the file is strictly decoded by an independent decoder after every step; distinct = distinct event-log hash; non-trivial = at least one context switch between live tasks or a kill",
		Real: []string{"internal/counter", "internal/mmap", "internal/telemetry", "Linux tmpfs, mmap(MAP_SHARED) coherence between several mappings in one address space", "real munmap in half of the runs"},
		Stub: []string{"processes are simulated: one address space, one counter.file object per process; kill = never scheduled again, nothing unwound", "Go scheduler", "wall clock"},
		Assumptions: []string{
			"a process crash is modelled as SIGKILL at a scheduling point: what the page cache holds is what other processes see; power loss is out of scope",
			"scheduling points as in C03; sequentially consistent memory",
			"sampling, not enumeration",
		},
		Probes: []string{"kill:step", "kill:CompareAndSwap @file.go", "kill:fs:writeat"},
	},
	"C10": {
		Harness: "h1", Level: "exploration",
		Families: []family{
			{Name: "histories", Flags: map[string]string{"family": "histories"}, Quick: 2400, Thorough: 300000},
		},
		QuickBudget: 90 * time.Second, ThoroughBudget: 25 * time.Minute, Chunk: 50,
		Rule:        "one run = a history of 1..3 sessions (create / increment / close / reopen by new process objects = restart / extend), 1..3 concurrent writer processes per session, over a pool of names of 1..4096 bytes of arbitrary content (ASCII, any byte incl. NUL and newline, non-UTF-8, ditto marks), build metadata up to and beyond the 512-byte cap, optionally starting from a file written by the independent encoder (different placement policy); every intermediate snapshot is strictly decoded; the final content must equal the model and the library's Parse must agree with the independent decoder; distinct = distinct event-log hash; distinct_states counts distinct (previous limit mod 16384, name length) placement cases reached",
		Real:        []string{"internal/counter", "internal/mmap", "internal/telemetry", "Linux tmpfs / mmap"},
		Stub:        []string{"processes simulated in one address space", "Go scheduler", "wall clock"},
		Assumptions: []string{"refformat (independent codec written from the layout comment) is the oracle", "scheduling points as in C03", "sampling, not enumeration"},
		Probes:      []string{"foreign-file"},
	},
	"C05": {
		Harness: "h1", Level: "fault_enumeration",
		Families: []family{
			{Name: "call-failures", Flags: map[string]string{"family": "enum"}, Quick: 500, Thorough: 12000},
			{Name: "corruption-at-rest", Flags: map[string]string{"family": "corruption"}, Quick: 3000, Thorough: 400000},
		},
		QuickBudget: 100 * time.Second, ThoroughBudget: 14 * time.Minute, Chunk: 10,
		Rule: "call-failures: one seeded workload (1..2 processes x 1..2 threads, first open, increments incl. page growth, optional rotation, optional deletion of files in use, directory found as a regular file) is executed fault-free to count its N file-system/mmap calls, then re-executed once per (call index, errno in ENOENT/EACCES/EROFS/ENOSPC/EIO/EMFILE/EINTR, or short write) [quick: every call with a third of the errnos plus all short writes], once per persistent state (read-only, permission denied, mmap always failing) and for a sample of pairs (thorough: all pairs when N<=60); corruption-at-rest: a valid file built by the independent encoder is damaged (random bytes, truncation classes, header length, limit, bucket heads, name lengths, next links incl. self-loops, longer cycles and cross-chain links, for plain and ditto-compressed stack names) and then opened and incremented by the library; evaluations = executions; distinct = distinct event-log hash of the last execution of each workload; non-trivial = a fault fired or the file was damaged",
		Real: []string{"internal/counter", "internal/mmap", "internal/telemetry", "Linux tmpfs / mmap"},
		Stub: []string{"failing calls are injected by the file-system shim instead of being performed", "Go scheduler", "wall clock"},
		Assumptions: []string{
			"upload-side failures (upload.Run) are covered by the machine-world harness when it is claimed; this check covers opening, mapping, extending, rotating and incrementing",
			"a recorded allocation limit far beyond the file size (which makes the library create a sparse file of that size) is not generated for the library consumer: its chain walks are bounded but too long to simulate",
			"truncation of a file that is currently mapped is outside the property's quantifier and is not injected",
		},
		Probes: []string{"single-faults", "pair-faults", "persistent-faults"},
	},
	"C06": {
		Harness: "h1", Level: "exploration",
		Families: []family{
			{Name: "live-snapshots", Flags: map[string]string{"family": "live"}, Quick: 1200, Thorough: 150000},
			{Name: "damaged-at-rest", Flags: map[string]string{"family": "corruption"}, Quick: 6000, Thorough: 1500000},
		},
		QuickBudget: 90 * time.Second, ThoroughBudget: 12 * time.Minute, Chunk: 50,
		Rule:        "live-snapshots: Parse is run on the bytes of the shared counter file after every scheduler step of a multi-process history with kills (every intermediate state: reserved-unlinked records, dead records, half-grown files) and compared with the independent decoder whenever that accepts the snapshot; damaged-at-rest: Parse on structurally damaged files (see C05) must return within a loop budget, and must agree with the independent decoder when the damage left the file well-formed. Claimed only for the clauses that meet the simulated schedule and disk; totality over all byte strings (random / coverage-guided) is not decided by this family",
		Real:        []string{"internal/counter.Parse, DecodeStack (instrumented: loop budget)", "internal/counter writers producing the snapshots"},
		Stub:        []string{"Go scheduler", "wall clock"},
		Assumptions: []string{"refformat and refstack are the oracle", "two stored names that expand to the same text are not generated (the documentation does not say which wins)"},
		Probes:      []string{"parse-compared", "damaged-but-wellformed"},
	},
	"C09": {
		Harness: "h1", Level: "exploration",
		Families: []family{
			{Name: "counter-side", Flags: map[string]string{"family": "counter"}, Quick: 4000, Thorough: 500000},
		},
		QuickBudget: 90 * time.Second, ThoroughBudget: 20 * time.Minute, Chunk: 100,
		Rule:        "one run = a rotating process on a simulated calendar (instants 1990..2060 biased to 23:59:59 / 00:00:00, month, year and leap boundaries, and to the last 90 s of a day), week-end setting valid 0..6 / missing / empty / garbage, 1..3 phases of concurrent increments during which the clock jumps to end-1ns, end, end+1ns, hours or weeks later; the real rotate re-arms itself through the simulated AfterFunc; checked: begin/end/name of every file created against refcal, old files frozen once a rotation completed, rotation liveness after the clock stops, conservation; distinct = distinct event-log hash",
		Real:        []string{"internal/counter (rotate, rotate1, counterSpan, weekEnd)", "internal/telemetry"},
		Stub:        []string{"clock and AfterFunc simulated", "Go scheduler"},
		Assumptions: []string{"uploader side of C09 (expiry test and week naming) is checked in the machine-world harness when claimed", "UTC only, as the code"},
		Probes:      []string{"rotation-completed", "jump-kind-0", "jump-kind-1", "jump-kind-2"},
	},
}
