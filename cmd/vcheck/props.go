package main

import "time"

type harnessConfig struct {
	Package    string   // import path (main package) or directory pattern (test hosted)
	Module     string   // "" root module, "godev"
	TestHosted bool     // harness is a _test.go file overlaid into an existing package
	RootPkgs   string   // simgen -pkgs
	DevPkgs    string   // simgen -godevpkgs
	TickPkgs   string   // simgen -tickpkgs: loop budgets only
	Mounts     []string // virtual=real
}

const rootInstrumented = "./internal/counter,./internal/mmap,./internal/telemetry,./internal/upload,./internal/configstore,.,./cmd/gotelemetry,./counter"

var commonMounts = []string{
	"internal/verifsim/simrt=sim/simrt",
	"internal/verifsim/hlib=sim/hlib",
	"internal/verifsim/ref/refformat=sim/ref/refformat",
	"internal/verifsim/ref/refcal=sim/ref/refcal",
	"internal/verifsim/ref/refstack=sim/ref/refstack",
}

var harnesses = map[string]*harnessConfig{
	"h4": {
		Package: "./cmd/worker", Module: "godev", TestHosted: true,
		RootPkgs: "./internal/telemetry",
		DevPkgs:  "./cmd/worker",
		Mounts: append(append([]string{}, commonMounts...),
			"godev/cmd/worker=sim/harness/h4"),
	},
	"h5": {
		Package: "./internal/storage", Module: "godev", TestHosted: true,
		RootPkgs: "./internal/telemetry",
		Mounts: append(append([]string{}, commonMounts...),
			"godev/internal/storage=sim/harness/h5"),
	},
	"h3": {
		Package: "./cmd/telemetrygodev", Module: "godev", TestHosted: true,
		// Only the uploader side is instrumented (transport, config stub): the
		// handler chain runs its own goroutines (http.TimeoutHandler).
		RootPkgs: "./internal/telemetry,./internal/upload,./internal/configstore",
		Mounts: append(append([]string{}, commonMounts...),
			"internal/verifsim/ref/refcfg=sim/ref/refcfg",
			"internal/verifsim/ref/refreport=sim/ref/refreport",
			"internal/verifsim/mgen=sim/mgen",
			"godev/cmd/telemetrygodev=sim/harness/h3"),
	},
	"h7": {
		Package: ".", TestHosted: true,
		RootPkgs: rootInstrumented,
		Mounts: append(append([]string{}, commonMounts...),
			".=sim/harness/h7",
			"internal/crashmonitor=sim/shims/crashmonitor",
			"internal/counter=sim/shims/counter"),
	},
	"h2": {
		Package: "./cmd/gotelemetry", TestHosted: true,
		// internal/counter is left uninstrumented here: the uploader only parses
		// files, and a scheduling point at every atomic load of Parse would drown
		// the file-system-call granularity this world is about.
		RootPkgs: "./internal/telemetry,./internal/upload,./internal/configstore,.,./cmd/gotelemetry",
		TickPkgs: "./internal/counter",
		Mounts: append(append([]string{}, commonMounts...),
			"internal/verifsim/ref/refcfg=sim/ref/refcfg",
			"internal/verifsim/ref/refreport=sim/ref/refreport",
			"internal/verifsim/mgen=sim/mgen",
			"cmd/gotelemetry=sim/harness/h2",
			"cmd/gotelemetry/internal/view=sim/shims/view",
			"internal/counter=sim/shims/counter"),
	},
	"h1": {
		Package:  "golang.org/x/telemetry/internal/verifsim/h1",
		RootPkgs: "./internal/counter,./internal/mmap,./internal/telemetry",
		Mounts: append(append([]string{}, commonMounts...),
			"internal/verifsim/h1=sim/harness/h1",
			"internal/counter=sim/shims/counter"),
	},
}

type family struct {
	Name     string
	Harness  string // optional: overrides the property's harness for this family
	Flags    map[string]string
	Quick    int
	Thorough int
}

type propConfig struct {
	Harness        string
	Level          string
	Families       []family
	QuickBudget    time.Duration
	ThoroughBudget time.Duration
	Chunk          int
	Rule           string
	Real           []string
	Stub           []string
	Assumptions    []string
	Probes         []string
}

func (p *propConfig) families() []family { return p.Families }

func (p *propConfig) watchdog() time.Duration { return 3 * time.Minute }

var props = map[string]*propConfig{
	"C03": {
		Harness: "h1", Level: "exploration",
		Families: []family{
			{Name: "plain", Flags: map[string]string{"family": "plain"}, Quick: 30000, Thorough: 6000000},
			{Name: "saturation", Flags: map[string]string{"family": "saturation"}, Quick: 4000, Thorough: 600000},
		},
		QuickBudget: 90 * time.Second, ThoroughBudget: 25 * time.Minute, Chunk: 125,
		Rule: "one run = one seeded execution of 2..4 threads x 1..6 counters (shared, private, same-name aliases, long names that cross pages, stack counters) with a concurrent first open, file growth and clock-driven rotation, scheduled at the granularity of single atomic operations, lock acquisitions and Counter.ptr accesses; distinct = distinct event-log hash; non-trivial = at least one context switch between live tasks; names include the longest a record can hold, names no record can hold (empty, over 4096 bytes: their counts stay in memory by design) and stack names cut to the maximum length; one to three rotations in a row; in a quarter of the saturation family's runs every thread adds the largest amount (2^63-1 less 0..2) to one counter, so that the adders meet just below 2^63 inside each other's load and add; in a quarter of the runs whose file is opened before or with the threads a further thread calls rotate1 one to three times with nothing to rotate (Open called again, a timer firing early) while the adders grow and re-map the file; the simulated kernel reuses a freed range at once, so a second munmap of one mapping takes away the process's newest mapping made since (never observed on the pinned tree)",
		Real: []string{"internal/counter (all of it, instrumented build generated from the working tree)", "internal/mmap", "internal/telemetry", "Linux tmpfs and mmap(MAP_SHARED)"},
		Stub: []string{"munmap replaced by mprotect(PROT_NONE) so that use-after-unmap faults deterministically", "Go scheduler (replaced by the tape-driven scheduler)", "wall clock"},
		Assumptions: []string{
			"interleavings are explored at the yield points simgen inserts (every sync/atomic operation, mutex, once, Counter.ptr access, file-system call); code between two yield points is treated as atomic",
			"sequentially consistent memory: weak-memory reorderings are not explored",
			"sampling, not enumeration: a clean batch is evidence, not proof",
		},
		Probes: []string{"clock-jump", "remap-after-growth"},
	},
	"C04": {
		Harness: "h1", Level: "exploration",
		Families: []family{
			{Name: "kills", Flags: map[string]string{"family": "kills"}, Quick: 48000, Thorough: 3200000},
			{Name: "kills-at-the-limit", Flags: map[string]string{"family": "saturation"}, Quick: 6000, Thorough: 800000},
		},
		QuickBudget: 150 * time.Second, ThoroughBudget: 25 * time.Minute, Chunk: 50,
		Rule: "one run = 2..4 simulated processes (independent counter.file objects and mappings of one shared file, 1..2 threads each) incrementing names drawn from a pool with same-name, same-bucket (colliding), page-crossing and page-end-sized names, scheduled at single-atomic-operation granularity, with 0..3 kills placed at a random step or right after the victim's k-th limit CAS / head CAS / record write / extension write / mmap; the file is strictly decoded by an independent decoder after every step; distinct = distinct event-log hash; non-trivial = at least one context switch between live tasks or a kill; one run in six has a foreign opener (same file name, other build metadata) that must be refused once the file exists; the header metadata of an initialised file must never change; one run in six ends the week for all processes at once (they race to create the next file); kills also late in the run, with classes of their own for the record-level compare-and-swap; kills-at-the-limit: the same world with amounts of 2^62..2^63-1, so that records reach 2^64-1 within a few adds and kills and other processes' reads fall inside the add that sticks (per-instant clauses only: well-formed, never above what was begun, never decreasing)",
		Real: []string{"internal/counter", "internal/mmap", "internal/telemetry", "Linux tmpfs, mmap(MAP_SHARED) coherence between several mappings in one address space", "real munmap in half of the runs"},
		Stub: []string{"processes are simulated: one address space, one counter.file object per process; kill = never scheduled again, nothing unwound", "Go scheduler", "wall clock"},
		Assumptions: []string{
			"a process crash is modelled as SIGKILL at a scheduling point: what the page cache holds is what other processes see; power loss is out of scope",
			"scheduling points as in C03; sequentially consistent memory",
			"sampling, not enumeration",
		},
		Probes: []string{"kill:step", "kill:m.mapping.Data[off])).CompareAndSwap", "kill:fs:writeat", "remap-after-growth"},
	},
	"C10": {
		Harness: "h1", Level: "exploration",
		Families: []family{
			{Name: "histories", Flags: map[string]string{"family": "histories"}, Quick: 24000, Thorough: 2400000},
			{Name: "independent-writer", Flags: map[string]string{"family": "encoded"}, Quick: 4000, Thorough: 1200000},
		},
		QuickBudget: 150 * time.Second, ThoroughBudget: 25 * time.Minute, Chunk: 50,
		Rule:        "independent-writer: a file written by the independent encoder (metadata lines in any order, blank lines before and between them, empty values, values holding a colon, sizes up to the 512-byte cap; three placement styles; values up to 2^64-1; chains of hundreds of records) must be read by the library's Parse exactly as the independent decoder reads it; histories: one run = a history of 1..3 sessions (create / increment / close / reopen by new process objects = restart / extend), 1..3 concurrent writer processes per session, over a pool of names of 1..4096 bytes of arbitrary content (ASCII, any byte incl. NUL and newline, non-UTF-8, ditto marks), build metadata up to and beyond the 512-byte cap, optionally starting from a file written by the independent encoder (different placement policy); every intermediate snapshot is strictly decoded; the final content must equal the model and the library's Parse must agree with the independent decoder; distinct = distinct event-log hash; distinct_states counts distinct (previous limit mod 16384, name length) placement cases reached; metadata clearly below the cap must be accepted",
		Real:        []string{"internal/counter", "internal/mmap", "internal/telemetry", "Linux tmpfs / mmap"},
		Stub:        []string{"processes simulated in one address space", "Go scheduler", "wall clock"},
		Assumptions: []string{"refformat (independent codec written from the layout comment) is the oracle", "scheduling points as in C03", "sampling, not enumeration"},
		Probes:      []string{"foreign-file"},
	},
	"C05": {
		Harness: "h1", Level: "fault_enumeration",
		Families: []family{
			{Name: "call-failures", Flags: map[string]string{"family": "enum"}, Quick: 800, Thorough: 96000},
			{Name: "corruption-at-rest", Flags: map[string]string{"family": "corruption"}, Quick: 10000, Thorough: 3200000},
			{Name: "upload-failures", Harness: "h2", Flags: map[string]string{"family": "upload"}, Quick: 240, Thorough: 80000},
		},
		QuickBudget: 100 * time.Second, ThoroughBudget: 14 * time.Minute, Chunk: 10,
		Rule: "call-failures: one seeded workload (1..2 processes x 1..2 threads, first open, increments incl. page growth, optional rotation, optional deletion of files in use, directory found as a regular file) is executed fault-free to count its N file-system/mmap calls, then re-executed once per (call index, errno in ENOENT/EACCES/EROFS/ENOSPC/EIO/EMFILE/EINTR, or short write) [quick: every call with a third of the errnos plus all short writes], once per persistent state (read-only, permission denied, mmap always failing) and for a sample of pairs (thorough: all pairs when N<=60); corruption-at-rest: a valid file built by the independent encoder is damaged (random bytes, truncation classes, header length, limit, bucket heads, name lengths, next links incl. self-loops, longer cycles and cross-chain links, for plain and ditto-compressed stack names) and then opened and incremented by the library; evaluations = executions; distinct = distinct event-log hash of the last execution of each workload; non-trivial = a fault fired or the file was damaged; upload-failures: the directory as found may also hold files whose names only nearly match the data-file patterns (x.json, .json, local..json, 2024.json, .v1.count, ...); both worlds may find a mode file cut short or otherwise odd; directory states include odd week-end files; persistent states include a file system without hard links and disk full / read-only / mmap failing from call k on; corruption-at-rest: one file in twenty is left intact and grown (sparse) to 4 GiB and 0..3 pages while nobody has it open, so that lengths no longer fit 32 bits",
		Real: []string{"internal/counter", "internal/mmap", "internal/telemetry", "Linux tmpfs / mmap"},
		Stub: []string{"failing calls are injected by the file-system shim instead of being performed", "Go scheduler", "wall clock"},
		Assumptions: []string{
			"upload-failures family (machine world): one upload.Run over a directory of counter files (some damaged at rest), left-over and malformed reports, the directory found missing / as a regular file / with a debug directory, every single file-system call failing with each errno or a short write, persistent read-only / permission-denied / unreadable states, server failures and a sample of pairs; oracle: Run returns, no panic escapes, step budget, no report holds a value above the true sum of its week's files",
			"a recorded allocation limit far beyond the file size (which makes the library create a sparse file of that size) is not generated for the library consumer: its chain walks are bounded but too long to simulate",
			"truncation of a file that is currently mapped is outside the property's quantifier and is not injected",
		},
		Probes: []string{"single-faults", "pair-faults", "persistent-faults"},
	},
	"C06": {
		Harness: "h1", Level: "exploration",
		Families: []family{
			{Name: "live-snapshots", Flags: map[string]string{"family": "live"}, Quick: 6000, Thorough: 1200000},
			{Name: "damaged-at-rest", Flags: map[string]string{"family": "corruption"}, Quick: 20000, Thorough: 12000000},
			{Name: "well-formed-files", Flags: map[string]string{"family": "wellformed"}, Quick: 4000, Thorough: 1200000},
		},
		QuickBudget: 90 * time.Second, ThoroughBudget: 12 * time.Minute, Chunk: 50,
		Rule:        "live-snapshots: Parse is run on the bytes of the shared counter file after every scheduler step of a multi-process history with kills (every intermediate state: reserved-unlinked records, dead records, half-grown files) and compared with the independent decoder whenever that accepts the snapshot; damaged-at-rest: Parse on structurally damaged files (see C05) must return within a loop budget, and must agree with the independent decoder when the damage left the file well-formed; well-formed-files: Parse on the final files of the C10 histories (names of 1..4096 bytes of any content, stack names with method, closure and generic frames under ditto compression) must return exactly what the independent decoder and stack expander read. Claimed only for the clauses that meet the simulated schedule and disk; totality over all byte strings (random / coverage-guided) is not decided by this family; encoded files carry values up to 2^64-1 and chains of hundreds of records; one damaged file in 24 is padded to 8 MiB and more (free pages), and bucket heads and next pointers also take 0xfffffff8, 0xffffffe8, len-8 and len-16",
		Real:        []string{"internal/counter.Parse, DecodeStack (instrumented: loop budget)", "internal/counter writers producing the snapshots"},
		Stub:        []string{"Go scheduler", "wall clock"},
		Assumptions: []string{"refformat and refstack are the oracle", "two stored names that expand to the same text are not generated (the documentation does not say which wins)"},
		Probes:      []string{"parse-compared", "damaged-but-wellformed"},
	},
	"C09": {
		Harness: "h1", Level: "exploration",
		Families: []family{
			{Name: "counter-side", Flags: map[string]string{"family": "counter"}, Quick: 16000, Thorough: 4000000},
			{Name: "uploader-side", Harness: "h2", Flags: map[string]string{"family": "uploader"}, Quick: 8000, Thorough: 2000000},
		},
		QuickBudget: 90 * time.Second, ThoroughBudget: 20 * time.Minute, Chunk: 100,
		Rule:        "one run = a rotating process on a simulated calendar (instants 1990..2060 biased to 23:59:59 / 00:00:00, month, year and leap boundaries, and to the last 90 s of a day), week-end setting valid 0..6 / missing / empty / garbage, 1..3 phases of concurrent increments during which the clock jumps to end-1ns, end, end+1ns, hours or weeks later; the real rotate re-arms itself through the simulated AfterFunc; checked: begin/end/name of every file created against refcal, old files frozen once a rotation completed, rotation liveness after the clock stops, conservation; distinct = distinct event-log hash; in a third of the runs a second program starts at the same moment (shared week-end file, created by whoever comes first); the machine may live in a local time zone; week-end digits also in the forms an editor leaves; checked in addition: no file is created before the end of the one in use (unless the clock was set back), conservation, and crashes of this world are reported here; between two phases the user may turn telemetry off while the process lives (one change in four of those made between phases): a rotation at or after a file's recorded end then creates nothing and leaves that file frozen, whatever the process still holds (old-file-written)",
		Real:        []string{"internal/counter (rotate, rotate1, counterSpan, weekEnd)", "internal/telemetry"},
		Stub:        []string{"clock and AfterFunc simulated", "Go scheduler"},
		Assumptions: []string{"uploader-side family (machine world): the run's start time is placed at end-1ns, end, end+1ns and later relative to the recorded end of a counter file on a 1990..2060 calendar; a file is consumed iff its end is before the start time and is reported under the week named by its end date (the C07 oracle with that start time), files not consumed receive no mutating call", "UTC only, as the code"},
		Probes:      []string{"rotation-completed", "jump-kind-0", "jump-kind-1", "jump-kind-2"},
	},
	"C07": {
		Harness: "h2", Level: "exploration",
		Families: []family{{Name: "concurrent-uploaders", Flags: map[string]string{"family": "plain"}, Quick: 12000, Thorough: 2000000},
			{Name: "removal-after-disk-failure", Flags: map[string]string{"family": "diskfault"}, Quick: 160, Thorough: 40000}},
		QuickBudget: 100 * time.Second, ThoroughBudget: 25 * time.Minute, Chunk: 50,
		Rule:        "one run = a machine history of 2..4 rounds over simulated weeks: counter files of 3 programs x versions x Go versions x platforms (expired, active, empty, unreadable, near-miss names), then 1..4 concurrent real upload.Run calls in mode on or local scheduled at file-system/HTTP-call granularity with tape-permuted map order, server fates from the tape; after each round the reference aggregation is compared with local.<week>.json for every week that had no report, the call log is checked for removals before a report exists and for any mutating call on active/unreadable files, and existing reports must keep their bytes; distinct = distinct event-log hash; non-trivial = at least one context switch between live uploaders; in a third of the runs the machine lives in a local time zone (UTC-8, UTC+14, UTC-11:30) that every time.Now() carries, and one uploader in five is handed its start time in such a zone; a program named local.tool is in the pool; the directory name may carry a date; foreign json files, a debug directory with data-named files, several files of one build in a week, near-miss identities, empty metadata values and values up to 2^50 occur; a configuration may be published in mid-round; removal-after-disk-failure: after each enumerated single call failure of the upload-failure world (see C05) a counter file that is gone must belong to a week that has a report (evaluations = executions); counter files of the previous build under a sibling import path that shares its last element (example.com/gopls and example.net/x/gopls: the same file-name prefix, two programs); from the second round on, one round in five gets a late counter file of a week whose unsent report is still in local/, the week's local copy tidied away by the user in half of these",
		Real:        []string{"internal/upload (all of it: findWork, reports, createReport, uploadReport; instrumented)", "internal/telemetry (mode file)", "internal/config", "internal/counter.Parse (uninstrumented in this world)", "cmd/gotelemetry runOn/runLocal/runOff/runClean", "Linux tmpfs (O_EXCL, link, rename semantics are the kernel's)"},
		Stub:        []string{"the `go` command that internal/configstore.Download runs (`go mod download -json`): simulated, it prints the module directory of the simulated config store's current version; Download itself is the real code", "upload server: a policy stub deciding each request's fate (200 / 4xx / 5xx / no answer / processed-but-answer-lost / duplicate delivery); its verdict on a given body is stable", "counter files are produced by the independent encoder (refformat)", "crypto/rand.Reader replaced so that X is chosen by the tape", "Go scheduler, wall clock"},
		Assumptions: []string{"weeks mixing expired and unexpired files of one end date are not generated (ends are midnights)", "sums stay far below 2^62", "sampling, not enumeration"},
		Probes:      []string{"week-reported"},
	},
	"C08": {
		Harness: "h2", Level: "exploration",
		Families: []family{
			{Name: "kills", Flags: map[string]string{"family": "kills"}, Quick: 6000, Thorough: 1200000},
			{Name: "no-kill-liveness", Flags: map[string]string{"family": "nokill"}, Quick: 6000, Thorough: 1200000},
			{Name: "rerun-after-disk-failure", Flags: map[string]string{"family": "diskfault"}, Quick: 160, Thorough: 40000},
		},
		QuickBudget: 100 * time.Second, ThoroughBudget: 13 * time.Minute, Chunk: 50,
		Rule:        "as C07 in mode on with 2..4 concurrent uploaders per round and per-request server fates (200, 4xx, 5xx, no answer, processed-but-answer-lost, duplicate delivery); kills family: an uploader is killed after a file-system or HTTP call with probability 1/150 per marked call (nothing unwound: the lock file stays); checked over the server-side history: all accepted bodies of a week identical, no request for a week that was acknowledged and recorded as uploaded, after 5xx/no answer the receiving task leaves the report alone, after 4xx it does not mark it uploaded; no-kill family additionally: once the server answers 200, three more sequential runs deliver every sendable week, each acknowledged to a client exactly once; client-error answers are drawn from 400..499 and server-error answers from 500..599; one round in ten is preceded by the clock being set back 1..20 days; one crash-free run in eight has an upload directory that cannot be created: delivery is not demanded there, more than one acknowledgement of a week is a violation; rerun-after-disk-failure: each single call failure of the upload-failure world (see C05) is followed by two more runs on a healthy disk, after which no week that was acknowledged while its uploaded marker existed may have been sent again (evaluations = executions); once a round is over, every uploader that was answered 4xx and ran to its end (not killed, healthy disk) must have removed the week's waiting report or tried to (rejected-report-kept)",
		Real:        []string{"internal/upload (all of it: findWork, reports, createReport, uploadReport; instrumented)", "internal/telemetry (mode file)", "internal/config", "internal/counter.Parse (uninstrumented in this world)", "cmd/gotelemetry runOn/runLocal/runOff/runClean", "Linux tmpfs (O_EXCL, link, rename semantics are the kernel's)"},
		Stub:        []string{"the `go` command that internal/configstore.Download runs (`go mod download -json`): simulated, it prints the module directory of the simulated config store's current version; Download itself is the real code", "upload server: a policy stub deciding each request's fate (200 / 4xx / 5xx / no answer / processed-but-answer-lost / duplicate delivery); its verdict on a given body is stable", "counter files are produced by the independent encoder (refformat)", "crypto/rand.Reader replaced so that X is chosen by the tape", "Go scheduler, wall clock"},
		Assumptions: []string{"the server is adversarial about availability, not validity: it never accepts a body it has rejected, nor rejects one it has accepted", "liveness is claimed without kills only (a kill legitimately leaves a stale lock)", "kill = SIGKILL between two calls"},
		Probes:      []string{"kill after http:post", "kill after fs:link"},
	},
	"C01": {
		Harness: "h2", Level: "exploration",
		Families:    []family{{Name: "configs-and-x", Flags: map[string]string{"family": "plain"}, Quick: 12000, Thorough: 2000000}},
		QuickBudget: 100 * time.Second, ThoroughBudget: 25 * time.Minute, Chunk: 50,
		Rule:        "C07's histories in mode on with tape-generated upload configs (program/version/Go-version lists, bucketed counters, stacks, rates in {0, 1, 1/2, 1/2 +- 2^-20, 3/4}, sample rate) whose version changes between rounds, local names that are exact, wrong-bucket, prefix, suffix and literal-brace near-misses of approved names, stack counters whose first line is an approved plain counter, and X forced through crypto/rand.Reader to dyadic values equal and adjacent to the rates; every request body seen by the transport is compared field by field with refreport.Filter(aggregate of the week's files, config fetched by the run that built that report, the body's X), including that nothing else is in the body or URL",
		Real:        []string{"internal/upload (all of it: findWork, reports, createReport, uploadReport; instrumented)", "internal/telemetry (mode file)", "internal/config", "internal/counter.Parse (uninstrumented in this world)", "cmd/gotelemetry runOn/runLocal/runOff/runClean", "Linux tmpfs (O_EXCL, link, rename semantics are the kernel's)"},
		Stub:        []string{"the `go` command that internal/configstore.Download runs (`go mod download -json`): simulated, it prints the module directory of the simulated config store's current version; Download itself is the real code", "upload server: a policy stub deciding each request's fate (200 / 4xx / 5xx / no answer / processed-but-answer-lost / duplicate delivery); its verdict on a given body is stable", "counter files are produced by the independent encoder (refformat)", "crypto/rand.Reader replaced so that X is chosen by the tape", "Go scheduler, wall clock"},
		Assumptions: []string{"configs with duplicate names at different rates or malformed bucket syntax are not generated (the documentation does not order them)", "a program build without any data may or may not be listed"},
		Probes:      []string{"week-reported"},
	},
	"C02": {
		Harness: "h2", Level: "exploration",
		Families: []family{
			{Name: "modes-and-calendar", Flags: map[string]string{"family": "modes"}, Quick: 12000, Thorough: 2000000},
			{Name: "counter-api-off", Harness: "h1", Flags: map[string]string{"family": "counteroff"}, Quick: 4000, Thorough: 400000},
		},
		QuickBudget: 100 * time.Second, ThoroughBudget: 25 * time.Minute, Chunk: 50,
		Rule:        "histories in which between rounds the mode changes (SetModeAsOf with back-dated opt-in dates, arbitrary bytes in the mode file, invalid modes) and counter-file begin/end, opt-in date and run time are placed on a simulated calendar; per request: the independently parsed mode is exactly on, the week is not in the future and after the opt-in date; per uploadable report: built in mode on, week not older than 21 days, X not above a positive sample rate, all data strictly after the opt-in date; rounds in mode off: no mutating call on and no change to any counter file or report; SetModeAsOf/Mode round trip and rejection of invalid modes leaving the bytes unchanged; a third of the library calls are SetMode without a time (today's UTC date must be read back, also when the file already names that mode); the mode file may be removed; one start in five is placed exactly 21 days after a week's end (-1 ns, 0, +1 ns); one hand-made mode file in about twenty is there and cannot be read (a directory has its name: the sandbox runs as root)",
		Real:        []string{"internal/upload (all of it: findWork, reports, createReport, uploadReport; instrumented)", "internal/telemetry (mode file)", "internal/config", "internal/counter.Parse (uninstrumented in this world)", "cmd/gotelemetry runOn/runLocal/runOff/runClean", "Linux tmpfs (O_EXCL, link, rename semantics are the kernel's)"},
		Stub:        []string{"the `go` command that internal/configstore.Download runs (`go mod download -json`): simulated, it prints the module directory of the simulated config store's current version; Download itself is the real code", "upload server: a policy stub deciding each request's fate (200 / 4xx / 5xx / no answer / processed-but-answer-lost / duplicate delivery); its verdict on a given body is stable", "counter files are produced by the independent encoder (refformat)", "crypto/rand.Reader replaced so that X is chosen by the tape", "Go scheduler, wall clock"},
		Assumptions: []string{"counter-api-off family (counter world): with the mode file saying off when the process starts, Open / OpenAndRotate (package-level and per-file), increments, the rotation timer and clock jumps perform no mutating file-system call and leave the directory (incl. data left from earlier) byte-identical", "an unreadable mode file is modelled by content the parser cannot read and by a directory that has the file's name, not by permissions (the sandbox runs as root)"},
		Probes:      []string{"week-reported"},
	},
	"C19": {
		Harness: "h2", Level: "exploration",
		Families:    []family{{Name: "user-commands", Flags: map[string]string{"family": "user"}, Quick: 8000, Thorough: 2000000}},
		QuickBudget: 100 * time.Second, ThoroughBudget: 25 * time.Minute, Chunk: 50,
		Rule:        "machine histories in which the user runs the real gotelemetry on / local / off / clean (their os.Exit paths simulated) between uploader rounds over directories populated by the simulation plus foreign files whose names match exactly, nearly (x.v1.count.bak, y.jsonx, z.v2.count, .json.swp, report.JSON) or not at all the data-file patterns, and sub-directories; after clean exactly the counter files and reports are gone and everything else hashes the same; a mode command leaves the file byte-identical when the mode is already the requested one, otherwise writes `<mode> <simulated UTC date>` which the library reads back; before clean the upload directory may not exist yet or local/ may have been removed by hand, and non-empty sub-directories named like data files hold foreign files; one command in five finds a mode file that holds no valid mode; one clean in six finds local/ or upload/ as a symbolic link to a directory kept elsewhere (the snapshots list its files under the link's name)",
		Real:        []string{"internal/upload (all of it: findWork, reports, createReport, uploadReport; instrumented)", "internal/telemetry (mode file)", "internal/config", "internal/counter.Parse (uninstrumented in this world)", "cmd/gotelemetry runOn/runLocal/runOff/runClean", "Linux tmpfs (O_EXCL, link, rename semantics are the kernel's)"},
		Stub:        []string{"the `go` command that internal/configstore.Download runs (`go mod download -json`): simulated, it prints the module directory of the simulated config store's current version; Download itself is the real code", "upload server: a policy stub deciding each request's fate (200 / 4xx / 5xx / no answer / processed-but-answer-lost / duplicate delivery); its verdict on a given body is stable", "counter files are produced by the independent encoder (refformat)", "crypto/rand.Reader replaced so that X is chosen by the tape", "Go scheduler, wall clock"},
		Assumptions: []string{"sub-directories do not carry data suffixes (whether a directory called x.json is a report is not decided by the statement)", "local/ and upload/ are directories, not symbolic links to directories (not generated: the oracles' directory snapshots do not follow links)"},
		Probes:      []string{"clean"},
	},
	"C16": {
		Harness: "h7", Level: "exploration",
		Families: []family{
			{Name: "decision-table", Flags: map[string]string{"family": "table"}, Quick: 8000, Thorough: 1600000},
			{Name: "token-within-24h", Flags: map[string]string{"family": "within24h"}, Quick: 8000, Thorough: 1600000},
		},
		QuickBudget: 100 * time.Second, ThoroughBudget: 12 * time.Minute, Chunk: 50,
		Rule:        "one run = 2..8 starter processes (child marker unset / 1 / 2 / junk, crash-reporting flag, upload flag) calling the real Start concurrently with mode on / local / off / missing / garbage and the upload token absent / fresh / stale (incl. exactly 24 h), interleaved at file-system-call granularity (stat token, remove, exclusive create), some starters hours apart; spawned children run the real child path (marker rewrite, counter.Open, upload.Run) and the stubbed config download spawns a descendant that calls Start again; checked at every spawn: mode not off, spawner not a telemetry child or descendant, upload flag only with a token acquired in this call and requested, otherwise crash reporting requested; mode off: no mutating call, directory unchanged; within-24h family: at most one token acquisition (none if a fresh token exists); a third of the processes enter through MaybeChild before Start (only a process marked 1 may stay in it); mode files as the commands write them or hand-written (no date, trailing newline, CRLF, surrounding spaces); a separate per-user default directory with its own mode; the n-th start of a telemetry child may fail and the debug directory may exist (sidecar.log possibly a directory); marker near-misses (0, 3, 01, 1 with a trailing space, true, 11); an inherited upload variable; one file-system call of the run may fail; a process in the sidecar role may touch nothing before it has rewritten its marker; mode files as the commands write them, written by hand (no date, white space) or with a date that is not YYYY-MM-DD (the first word is still the mode)",
		Real:        []string{"Start, parent, startChild, child, uploaderChild, acquireUploadToken (start.go)", "counter.Open / internal/counter", "internal/upload.Run", "internal/telemetry"},
		Stub:        []string{"process creation, environment, os.Exit, log.Fatal: simulated process table", "internal/crashmonitor.Parent/Child (they take over crash output and stdin)", "the `go` command run by internal/configstore.Download (real code): a simulated descendant that calls Start with the inherited environment and prints the directory of an empty config", "upload server (always 200)", "clock and file modification times"},
		Assumptions: []string{"simulated processes share one address space: package-level state of internal/counter (the default file) is shared by them", "the statement is only-if: whether a child must be launched when permitted is not checked", "the per-user default directory is chosen when the telemetry package is initialised, before a simulation is attached: the harness sets it itself, so a process without HOME or XDG_CONFIG_HOME is not simulated", "the token is observed as the exclusive creation of local/upload.token and a telemetry child as a process whose marker variable is 1 and becomes 2: other mechanisms for the same clauses would need other observers"},
		Probes:      []string{"spawned", "token-acquired", "mode-off", "token-2"},
	},
	"C12": {
		Harness: "h3", Level: "exploration",
		Families:    []family{{Name: "request-stream", Flags: map[string]string{"family": "requests"}, Quick: 8000, Thorough: 3200000}},
		QuickBudget: 100 * time.Second, ThoroughBudget: 20 * time.Minute, Chunk: 50,
		Rule:        "one run = a stream of 3..14 requests to the real upload handler behind its real middleware chain and a real file-system bucket: all methods; bodies that are valid approved reports (incl. ~100 KiB ones and hostile X values), reports with exactly one field invalid (week not a date, config not semver, X = 0, one unapproved program/version/Go version/GOOS/GOARCH/counter/stack, near-miss names), arbitrary bytes, well-formed JSON of the wrong shape, truncated and oversize JSON, duplicates; delivered through a body reader with short reads, a mid-stream error or an early end; after every request the answer class and the recursive listing of the storage directory are compared with a map object store and the reference configuration semantics; clauses that depend only on a pure function of the body are claimed for the request-stream/history part only; valid reports may carry fields the report type does not have or bytes after the JSON value (acceptance of the latter is not judged), and every stored object is decoded strictly: known fields only, one value; one report in five reuses the week and X of an accepted one with other content; bodies padded to limit-1 / limit / limit+1 with half of the requests declaring their length; request paths may name another week or none; bodies over the limit with a small complete value; content hashes of all stored objects are compared around every request; refused values outside ASCII (weeks, configs, program and counter names that are long in bytes and short in characters, digits that are not 0-9)",
		Real:        []string{"godev/cmd/telemetrygodev handleUpload + validate", "godev/internal/middleware chain (Log, Timeout, RequestSize, Recover)", "godev/internal/content error-to-status mapping", "godev/internal/storage FSBucket", "internal/config"},
		Stub:        []string{"no socket: requests are handed to ServeHTTP with a ResponseRecorder", "client body stream simulated (short reads, errors, early EOF)", "GCS backend not run"},
		Assumptions: []string{"a body whose delivered prefix is itself complete JSON followed by trailing bytes is not judged (the documentation does not say)", "the URL path is a clean /upload/<date> (paths are not in the property's quantifier)", "one run in three ends with two valid uploads whose handling overlaps (the first stops before its open, write or close while the second is served); the pair is judged only if the server serves the second meanwhile (three seconds of real time)", "a run is non-trivial when at least one of its requests was judged"},
	},
	"C11": {
		Harness: "h3", Level: "exploration",
		Families: []family{
			{Name: "uploader-vs-server", Flags: map[string]string{"family": "server"}, Quick: 8000, Thorough: 2400000},
			{Name: "viewer", Harness: "h2", Flags: map[string]string{"family": "viewer"}, Quick: 8000, Thorough: 2400000},
		},
		QuickBudget: 100 * time.Second, ThoroughBudget: 20 * time.Minute, Chunk: 50,
		Rule:        "one run = a generated upload configuration, 2..6 counter files (several programs, versions, Go versions, platforms incl. unlisted ones, near-miss counter and stack names), one real upload.Run whose every request is delivered by the simulated transport to the real upload handler configured with the same configuration (must answer 200); then each produced body is re-delivered six times with one field changed to a near-miss (program, version, Go version, GOOS, GOARCH, counter, stack first line): the handler must answer 4xx exactly when the reference semantics put the changed report outside the configuration; viewer family, in half of the runs: 2..4 pages are asked of one index-page handler (the real handleIndex behind a template of the harness that prints every file's and report's flags and summaries) with ?config= absent, latest, empty or a version, while the configuration file on disk is replaced by a new version, removed or restored between pages; every page must equal the page a handler made for that one request gives (lines compared as a set, names inside a summary in any order): viewer-page-depends-on-earlier-pages",
		Real:        []string{"internal/upload (uploader filter)", "godev/cmd/telemetrygodev validate/handleUpload + middleware", "internal/config"},
		Stub:        []string{"transport simulated (no socket)", "the `go` command run by configstore.Download (real code) is simulated", "counter files from the independent encoder", "viewer family: the viewer's newCounterFile/summary are evaluated on generated files and configurations and compared with the same reference semantics (active flags per metadata item, counter and stack; summary text)"},
		Assumptions: []string{"refcfg is the documented semantics"},
		Probes:      []string{"uploader-bodies"},
	},
	"C13": {
		Harness: "h4", Level: "exploration",
		Families:    []family{{Name: "merge-and-chart", Flags: map[string]string{"family": "worker"}, Quick: 5000, Thorough: 1600000}},
		QuickBudget: 100 * time.Second, ThoroughBudget: 20 * time.Minute, Chunk: 50,
		Rule:        "one run = 1..4 simulated days of stored reports (0..40 per day, sizes from tiny to just under the 100 KiB upload limit so that merged lines exceed 64 KiB, repeated X across days, several programs and buckets), the real handleMerge per day (sometimes skipping one) and the real handleChart for single days and ranges, with the bucket listing order and Go's map iteration order inside group/partition permuted by the tape; each chart is computed three times under different permutations; checked: one merged record per stored object decoding to it, NumReports, every partition value against the reference count of distinct report IDs, byte-identical output, 404 and no chart object for a range containing a day never merged; a day may have been merged before, when one of its objects was larger (same week and X stored again with less in it); the configuration lists pre-release Go versions and versions that are equal as semantic versions; objects are stored in several textual forms; reports may have no program or items outside the configuration; X with full mantissas, above 1 or negative; ranges of a week; between chart attempts the days are merged again in another listing order; one large report in three holds < and > in its stack frames, so that its stored and merged form (98..114 KiB) is longer than the body that was sent and than the upload limit",
		Real:        []string{"godev/cmd/worker handleMerge, readMergedReports, handleChart, group, charts, partition (instrumented: map iteration order)", "godev/internal/storage FSBucket", "internal/config"},
		Stub:        []string{"bucket handles wrapped so that the listing order comes from the tape", "requests handed to the handlers with a ResponseRecorder", "GCS, Cloud Tasks not run"},
		Assumptions: []string{"configuration Go versions are of the form go1.N.P (the development version maps to an empty bucket name)", "zero-count buckets may be present or absent", "the worker process may have as few as 40 open files (RLIMIT_NOFILE is lowered in half of the runs with a busy day): a merge that keeps a day's readers open until its end is reported as failing", "overlapping chart requests are judged only if the worker serves the second while the first is stopped (three seconds of real time)"},
	},
	"C18": {
		Harness: "h5", Level: "exploration",
		Families:    []family{{Name: "store-histories", Flags: map[string]string{"family": "store"}, Quick: 8000, Thorough: 2400000}},
		QuickBudget: 100 * time.Second, ThoroughBudget: 10 * time.Minute, Chunk: 100,
		Rule:        "one run = a history of 4..19 write / overwrite / read / prefix-list operations on the real FSBucket against a map object store, over names of nested ordinary components and the object names the upload (week/%g-of-X.json incl. extreme floats), merge (date.json) and chart (date.json, start_end.json) services construct; names that are a path prefix of another stored name are not generated; every constructed name must resolve under the bucket directory and a sibling bucket must stay untouched; names get suffix siblings (.tmp, .bak, ~, .lock), one write in five is listed before it is closed, listings may overlap; explicit overwrites with shorter, empty or much longer content; a sibling bucket whose name extends this bucket's; the handle is re-created in mid-history; one write in six (once something is stored) is storage.Copy from a stored object to a generated name: the model gives the destination the source's bytes of that moment, later overwrites of either are not read from the other; one copy in four to a name never stored is from an object that is not there: it must fail, and the name it was to be copied to still reads not-exist",
		Real:        []string{"godev/internal/storage FSBucket, FSObject, FSObjectIterator", "Linux tmpfs"},
		Stub:        []string{"GCS backend not run"},
		Assumptions: []string{"input-heavy property: claimed for the history part (sequences of operations against a model)"},
	},
}
