#!/bin/bash
# dev helper: rebuild h1 and explore
export GOFLAGS=-mod=mod GOPROXY=off GOSUMDB=off GOTOOLCHAIN=local
set -e
cd /verif && go build -o bin/simgen ./cmd/simgen
rm -rf /dev/shm/sg && ./bin/simgen -out /dev/shm/sg -mount internal/verifsim/simrt=sim/simrt,internal/verifsim/hlib=sim/hlib,internal/verifsim/ref/refformat=sim/ref/refformat,internal/verifsim/ref/refcal=sim/ref/refcal,internal/verifsim/ref/refstack=sim/ref/refstack,internal/verifsim/h1=sim/harness/h1,internal/counter=sim/shims/counter
cd /repo && go build -overlay /dev/shm/sg/overlay.json -o /dev/shm/sg/h1 golang.org/x/telemetry/internal/verifsim/h1
cd /verif
/dev/shm/sg/h1 "$@" | python3 -c "
import json,sys
d=json.loads(sys.stdin.read())
if 'runs' not in d:
    v=d
    print('hash',d['hash'],'steps',d['steps'])
    if d.get('violation'):
        print('VIOL',d['violation']['invariant'],d['violation']['message'][:3000])
    print('\n'.join(d.get('trace',[])[-150:]))
    sys.exit(0)
print('runs',d['runs'],'steps',d['steps'],'hashes',len(d['hashes']),'nontriv',len(d['nontrivial']),'states',len(d['states']),'wall',d['wall_s'],'inconcl',d['inconclusive'])
print(d['probes'],d['notes'],d['faults'])
v=d.get('violation')
if v:
    print('VIOL run',v['run'],'seed',v['seed'],v['violation']['invariant'],v['violation']['message'][:3000])
    print('\n'.join(v['violation']['trace'][-70:]))
    print(v['sample'])
    json.dump({'property':d['prop'],'harness':'h1','seed':v['seed'],'run':v['run'],'tape':v['tape']},open('/dev/shm/sg/last.json','w'))
"
