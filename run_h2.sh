#!/bin/bash
# dev helper: rebuild h2 and explore
export GOFLAGS=-mod=mod GOPROXY=off GOSUMDB=off GOTOOLCHAIN=local
set -e
cd /verif && go build -o bin/simgen ./cmd/simgen
rm -rf /dev/shm/sg2 && ./bin/simgen -out /dev/shm/sg2 -pkgs ./internal/telemetry,./internal/upload,.,./cmd/gotelemetry -mount internal/verifsim/simrt=sim/simrt,internal/verifsim/hlib=sim/hlib,internal/verifsim/ref/refformat=sim/ref/refformat,internal/verifsim/ref/refcal=sim/ref/refcal,internal/verifsim/ref/refstack=sim/ref/refstack,internal/verifsim/ref/refcfg=sim/ref/refcfg,internal/verifsim/ref/refreport=sim/ref/refreport,internal/verifsim/mgen=sim/mgen,cmd/gotelemetry=sim/harness/h2,cmd/gotelemetry/internal/view=sim/shims/view,internal/configstore=sim/shims/configstore,internal/counter=sim/shims/counter
cd /repo && go test -c -vet=off -overlay /dev/shm/sg2/overlay.json -o /dev/shm/sg2/h2 ./cmd/gotelemetry
cd /verif
/dev/shm/sg2/h2 -test.run '^TestVerifSim$' -- "$@" | grep '^{' | python3 -c "
import json,sys
d=json.loads(sys.stdin.read())
if 'runs' not in d:
    print('hash',d['hash'],'steps',d['steps'])
    if d.get('violation'):
        print('VIOL',d['violation']['invariant'],d['violation']['message'][:3000])
    print('\n'.join(d.get('trace',[])[-250:]))
    sys.exit(0)
print('runs',d['runs'],'steps',d['steps'],'hashes',len(d['hashes']),'nontriv',len(d['nontrivial']),'wall',d['wall_s'],'reqs',d['requests'],'kills',d['kills'])
print(d['probes'],d['notes'],d['faults'])
v=d.get('violation')
if v:
    print('VIOL run',v['run'],'seed',v['seed'],v['violation']['invariant'],v['violation']['message'][:3000])
    print('\n'.join(l[:170] for l in v['violation']['trace'][-70:]))
    print(v['sample'])
    json.dump({'property':d['prop'],'harness':'h2','seed':v['seed'],'run':v['run'],'tape':v['tape']},open('/dev/shm/sg2/last.json','w'))
"
