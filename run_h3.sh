#!/bin/bash
export GOFLAGS=-mod=mod GOPROXY=off GOSUMDB=off GOTOOLCHAIN=local
set -e
cd /verif && go build -o bin/simgen ./cmd/simgen
rm -rf /dev/shm/sg3 && ./bin/simgen -out /dev/shm/sg3 -pkgs ./internal/telemetry,./internal/upload -mount internal/verifsim/simrt=sim/simrt,internal/verifsim/hlib=sim/hlib,internal/verifsim/ref/refformat=sim/ref/refformat,internal/verifsim/ref/refcal=sim/ref/refcal,internal/verifsim/ref/refstack=sim/ref/refstack,internal/verifsim/ref/refcfg=sim/ref/refcfg,internal/verifsim/ref/refreport=sim/ref/refreport,internal/verifsim/mgen=sim/mgen,godev/cmd/telemetrygodev=sim/harness/h3,internal/configstore=sim/shims/configstore
cd /repo/godev && go test -c -vet=off -overlay /dev/shm/sg3/overlay.json -o /dev/shm/sg3/h3 ./cmd/telemetrygodev
cd /verif
/dev/shm/sg3/h3 -test.run '^TestVerifSim$' -- "$@" | grep '^{' | python3 -c "
import json,sys
d=json.loads(sys.stdin.read())
print('runs',d['runs'],'hashes',len(d['hashes']),'nontriv',len(d['nontrivial']),'wall',d['wall_s'])
print(d['probes'],d['notes'])
v=d.get('violation')
if v:
    print('VIOL run',v['run'],'seed',v['seed'],v['violation']['invariant'],v['violation']['message'][:3000])
    print('\n'.join(l[:200] for l in v['violation']['trace'][-30:]))
    print(v['sample'])
"
