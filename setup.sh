#!/bin/bash
set -e
cd "$(dirname "$0")"
export GOFLAGS=-mod=mod GOPROXY=off GOSUMDB=off GOTOOLCHAIN=local
mkdir -p bin evidence replays
go build -o bin/simgen ./cmd/simgen
go build -o bin/vcheck ./cmd/vcheck
echo "setup ok"
