package main

import (
	"crypto/sha256"
	"fmt"
	"os"
	"path/filepath"
	"time"

	"golang.org/x/telemetry/internal/counter"
	"golang.org/x/telemetry/internal/verifsim/hlib"
	"golang.org/x/telemetry/internal/verifsim/simrt"
)

// C02, counter-API side: with the mode file saying "off" when a process starts,
// neither opening counters nor incrementing them nor rotation creates, changes
// or removes anything in the telemetry directory. (The uploader side of the same
// clause is checked in the machine world.)
func scenarioC02Counter(c *hlib.RunCtx) *hlib.Violation {
	t := c.Tape
	start := baseTime(c)
	w := newWorld(c, start)
	defer w.close()
	s := w.s
	os.MkdirAll(w.tele, 0777)
	content := []string{"off", "off 2024-01-01", "off\n", " off ", "off 0000-00-00", "off garbage"}[t.Draw(6)]
	os.WriteFile(filepath.Join(w.tele, "mode"), []byte(content), 0666)
	// data left from the time telemetry was on: must stay byte-identical
	if t.Bool(1, 2) {
		os.MkdirAll(w.local, 0777)
		os.WriteFile(filepath.Join(w.local, "weekends"), []byte("2\n"), 0666)
		os.WriteFile(filepath.Join(w.local, "old@v1-go1.21-linux-amd64-2023-12-01.v1.count"), []byte("old data"), 0666)
		os.WriteFile(filepath.Join(w.local, "local.2023-12-08.json"), []byte("{}"), 0666)
	}
	snap := func() map[string][32]byte {
		out := map[string][32]byte{}
		filepath.Walk(w.tele, func(p string, info os.FileInfo, err error) error {
			if err == nil {
				if info.IsDir() {
					out[p+"/"] = [32]byte{}
				} else {
					b, _ := os.ReadFile(p)
					out[p] = sha256.Sum256(b)
				}
			}
			return nil
		})
		return out
	}
	before := snap()
	nprocs := 1 + t.Draw(2)
	chooseStrategy(c, s, 200)
	s.AfterStep = func(tk *simrt.Task) {
		if w.viol == nil {
			w.taskPanics(tk)
		}
	}
	useDefault := t.Bool(1, 3) // the public Open path (package-level default file)
	for i := 0; i < nprocs; i++ {
		p := w.newProc(fmt.Sprintf("app%d", i))
		if useDefault && i == 0 {
			p.f = counter.VerifDefaultFile()
		}
		for k := 0; k < 3; k++ {
			p.counters = append(p.counters, p.f.VerifNewCounter(fmt.Sprintf("c%d", k)))
		}
		nth := 1 + t.Draw(2)
		for j := 0; j < nth; j++ {
			first := j == 0
			nops := 1 + t.Draw(5)
			rotate := t.Bool(1, 2)
			s.Spawn(p.p, fmt.Sprintf("p%d.T%d", i, j), func() {
				if first {
					if useDefault && p.f == counter.VerifDefaultFile() {
						counter.Open(rotate)
					} else if rotate {
						p.f.VerifRotate()
					} else {
						p.f.VerifRotate1()
					}
				}
				for k := 0; k < nops; k++ {
					if k > 0 {
						simrt.Yield("op")
					}
					w.add(p, p.counters[k%3], 1)
				}
			})
		}
	}
	if t.Bool(1, 2) {
		env := s.NewProc("clock", nil)
		s.Spawn(env, "clock", func() {
			simrt.Yield("clock:wait")
			s.Advance(time.Duration(1+t.Draw(20)) * 24 * time.Hour)
		})
	}
	c.Sample = map[string]any{"mode_file": content, "procs": nprocs, "default_file": useDefault}
	w.finishRun(50000)
	if w.viol != nil {
		return w.viol
	}
	// let armed timers (if any) fire
	s.Advance(30 * 24 * time.Hour)
	w.finishRun(50000)
	if w.viol != nil {
		return w.viol
	}
	for _, fc := range s.CallLog {
		if fc.Mutating && fc.Err == nil {
			w.fail("off-mode-write", "the mode file says %q but the counter API performed %s on %s", content, fc.Op, fc.Path)
			return w.viol
		}
	}
	after := snap()
	if len(after) != len(before) {
		w.fail("off-mode-change", "the mode file says %q but the telemetry directory went from %d to %d entries", content, len(before), len(after))
	}
	for p, h := range before {
		if after[p] != h {
			w.fail("off-mode-change", "the mode file says %q but %s changed", content, s.Rel(p))
		}
	}
	return w.viol
}
