package main

import (
	"fmt"
	"math/bits"
	"strings"
	"time"

	"golang.org/x/telemetry/internal/counter"
	"golang.org/x/telemetry/internal/verifsim/hlib"
	"golang.org/x/telemetry/internal/verifsim/simrt"
)

// Stack-counter call sites. Inc records runtime.Callers(2): with depth 2 the
// name is determined by the site function and callSite, which are the same in
// the warm-up call that learns the names and in the simulated calls.

//go:noinline
func siteA(sc *counter.StackCounter) { sc.Inc() }

//go:noinline
func siteB(sc *counter.StackCounter) { sc.Inc() }

//go:noinline
func callSite(i int, sc *counter.StackCounter) {
	if i%2 == 0 {
		siteA(sc)
	} else {
		siteB(sc)
	}
}

var stackNames = map[string][2]string{}

// stackSiteNames learns the encoded counter names that the two sites produce
// for a stack counter called name.
func stackSiteNames(name string) [2]string {
	if n, ok := stackNames[name]; ok {
		return n
	}
	save := simrt.S
	simrt.Detach()
	f := counter.VerifNewFile(buildInfo)
	sc := f.VerifNewStack(name, 2)
	callSite(0, sc)
	callSite(1, sc)
	cs := sc.VerifCounters()
	n := [2]string{cs[0].Name(), cs[1].Name()}
	stackNames[name] = n
	simrt.S = save
	return n
}

type op struct {
	kind int // 0 plain counter, 1 stack site
	idx  int
	site int
	n    int64
	// fresh: the increment goes through a Counter object made for it
	fresh bool
}

func baseTime(c *hlib.RunCtx) time.Time {
	day := c.Tape.Draw(800)
	sec := 0
	switch c.Tape.Draw(4) {
	case 1:
		sec = 86399
	case 2:
		sec = c.Tape.Draw(86400)
	case 3:
		sec = 1
	}
	return time.Date(2024, 1, 1, 0, 0, 0, 0, time.UTC).Add(time.Duration(day)*24*time.Hour + time.Duration(sec)*time.Second)
}

var h1DelayClasses = []string{"fs:mmap", "fs:fstat", "fs:open", "fs:writeat", "CompareAndSwap @file.go", "Load @file.go", "f.current.Store", "f.current.Load",
	"s.bits.CompareAndSwap", "write c.ptr", "read c.ptr", "sys:munmap", "next.Store", "f.mu.Lock", "f.counters"}

func chooseStrategy(c *hlib.RunCtx, s *simrt.Sim, horizon int) {
	switch c.Tape.Draw(5) {
	case 4:
		s.SetDelay(h1DelayClasses, 1+c.Tape.Rng.Intn(3))
	case 0:
		s.Strat = simrt.StratUniform
	case 1:
		s.Strat = simrt.StratBursty
		s.BurstNum, s.BurstDen = 7, 8
	case 2:
		s.Strat = simrt.StratBursty
		s.BurstNum, s.BurstDen = 30, 32
	case 3:
		s.SetPCT(1+c.Tape.Draw(3), horizon)
	}
}

func longName(tag string, n int) string {
	return tag + strings.Repeat("x", n-len(tag))
}

// scenarioC03: one process, 2..4 threads incrementing shared / private / alias /
// stack counters, concurrently with the first open, file growth and rotation.
func scenarioC03(c *hlib.RunCtx) *hlib.Violation {
	t := c.Tape
	start := baseTime(c)
	w := newWorld(c, start)
	defer w.close()
	s := w.s
	thorough := c.Flag("tier") == "thorough"

	p := w.newProc("app")
	nthreads := 2 + t.Draw(3)
	ncounters := 1 + t.Draw(6)
	var stackKeys []string
	for i := 0; i < ncounters; i++ {
		switch t.Biased(5, 1, 2) {
		case 0, 4:
			p.counters = append(p.counters, p.f.VerifNewCounter(fmt.Sprintf("c%d", i)))
		case 1:
			// a long name: a few of these cross a 16 KiB page and force a remap
			// (one in four at the longest length a name may have, or just below it)
			ln := 3000 + t.Draw(1000)
			if t.Bool(1, 4) {
				ln = 4096 - t.Draw(3)
			}
			switch t.Biased(12, 10, 12) {
			case 1:
				// a name no record can hold (longer than the format allows): its
				// counts stay in memory and everybody else is unaffected
				ln = 4097 + t.Draw(5000)
			case 2:
				ln = 0 // the empty name: likewise
			}
			if ln == 0 {
				p.counters = append(p.counters, p.f.VerifNewCounter(""))
				break
			}
			p.counters = append(p.counters, p.f.VerifNewCounter(longName(fmt.Sprintf("L%d/", i), ln)))
		case 2:
			// a second Counter object with the name of an earlier one
			if len(p.counters) > 0 {
				p.counters = append(p.counters, p.f.VerifNewCounter(p.counters[t.Draw(len(p.counters))].Name()))
			} else {
				p.counters = append(p.counters, p.f.VerifNewCounter(fmt.Sprintf("c%d", i)))
			}
		case 3:
			key := fmt.Sprintf("stk%d", i)
			if t.Bool(1, 6) {
				// a name so long that the encoded stack is cut to the maximum length
				// (with the truncation marker); both sites may end up with one name
				key = longName(fmt.Sprintf("stk%d/", i), 4040+t.Draw(56))
				s.Probe("truncated-stack-name")
			}
			stackSiteNames(key)
			stackKeys = append(stackKeys, key)
			p.stacks = append(p.stacks, p.f.VerifNewStack(key, 2))
		}
	}
	// Growth: in half of the runs the first page is pre-filled so that the long
	// names the threads create cross into a new page (extend, remap,
	// invalidateCounters, close of the previous mapping) while increments are in
	// flight.
	prefill := t.Bool(1, 2)
	if prefill {
		for i := 0; i < 2; i++ {
			p.counters = append(p.counters, p.f.VerifNewCounter(longName(fmt.Sprintf("G%d/", i), 2000+t.Draw(2000))))
		}
		ncounters += 2
	}
	openMode := t.Draw(4) // 0 opened before the threads, 1 concurrent rotate1, 2 concurrent rotate (timer), 3 never
	if prefill && openMode == 3 {
		openMode = 0
	}
	rotation := openMode != 3 && t.Bool(1, 3)
	maxOps := 6
	if thorough {
		maxOps = 14
	}
	w.satur = c.Flag("family") == "saturation"
	w.strict = true // per-snapshot: decodable, values never decrease (no wrap)
	// In a quarter of the saturation runs every thread adds the largest amount to
	// one counter: the value stands just below 2^63 after the first of them, and
	// the following ones meet there, inside each other's load and add.
	hot := w.satur && t.Bool(1, 4)
	if hot {
		s.Probe("all-threads-at-the-limit")
	}
	scripts := make([][]op, nthreads)
	for i := range scripts {
		n := 1 + t.Draw(maxOps)
		for j := 0; j < n; j++ {
			var o op
			if len(p.stacks) > 0 && (len(p.counters) == 0 || t.Bool(1, 4)) {
				o = op{kind: 1, idx: t.Draw(len(p.stacks)), site: t.Draw(2), n: 1}
			} else {
				o = op{kind: 0, idx: t.Draw(len(p.counters)), n: int64(1 + t.Draw(5)), fresh: t.Bool(1, 5)}
				if w.satur && t.Bool(1, 3) {
					o.n = int64(1)<<33 - int64(t.Draw(4))
					switch t.Draw(4) {
					case 0:
						o.n = int64(1)<<62 + int64(t.Draw(1<<20))
					case 1:
						// the largest amount the API takes: the second such add reaches the
						// persisted limit, the third would wrap
						o.n = 1<<63 - 1 - int64(t.Draw(3))
					}
				}
				if hot {
					o.idx, o.n = 0, 1<<63-1-int64(t.Draw(3))
				}
			}
			scripts[i] = append(scripts[i], o)
		}
	}
	chooseStrategy(c, s, 400)
	c.Sample = map[string]any{"threads": nthreads, "counters": ncounters, "stacks": len(p.stacks), "open_mode": openMode,
		"rotation": rotation, "ops": scripts2str(scripts), "start": start.Format(time.RFC3339), "strategy": int(s.Strat)}

	installQuarantine(w, c)

	s.AfterStep = func(tk *simrt.Task) {
		if w.viol != nil {
			return
		}
		w.taskPanics(tk)
		w.checkConservation(false)
		w.stateHash()
	}

	if openMode == 0 {
		it := s.Spawn(p.p, "open", func() { enterAdd(); p.f.VerifRotate1(); leaveAdd() })
		s.RunSolo(it, 1<<20)
	}
	if prefill {
		fill := func() {
			for i := 0; i < 3; i++ {
				cn := p.f.VerifNewCounter(longName(fmt.Sprintf("P%d/", i), 4000))
				p.counters = append(p.counters, cn)
				w.add(p, cn, 1)
			}
		}
		if openMode == 0 {
			it := s.Spawn(p.p, "prefill", fill)
			s.RunSolo(it, 1<<20)
		} else {
			s.Spawn(p.p, "prefill", fill)
		}
	}
	for i := range scripts {
		sc := scripts[i]
		s.Spawn(p.p, fmt.Sprintf("T%d", i), func() {
			for i, o := range sc {
				if i > 0 {
					simrt.Yield("op")
				}
				if o.kind == 0 {
					cn := p.counters[o.idx]
					if o.fresh {
						// a new Counter object for every increment, as counter.Inc(name)
						// and counter.Add(name, n) make one: it is registered with the
						// file while rotations and growth walk the list of counters
						cn = p.f.VerifNewCounter(cn.Name())
						p.counters = append(p.counters, cn)
						s.Probe("fresh-counter-object")
					}
					w.add(p, cn, o.n)
				} else {
					key := stackKeys[o.idx]
					name := stackNames[key][o.site]
					w.begin(name, 1)
					enterAdd()
					callSite(o.site, p.stacks[o.idx])
					leaveAdd()
					w.added[name]++
				}
			}
		})
	}
	switch openMode {
	case 1:
		s.Spawn(p.p, "open", func() { enterAdd(); p.f.VerifRotate1(); leaveAdd() })
	case 2:
		s.Spawn(p.p, "open", func() { enterAdd(); p.f.VerifRotate(); leaveAdd() })
	}
	if openMode <= 1 && t.Bool(1, 4) {
		// rotate1 called again with nothing to rotate (Open called a second time, a
		// timer that fires early, a reader): it takes the lock, finds the week
		// still running and leaves - while the adders grow and re-map the file
		// between its unlock and its deferred look at the current mapping.
		again := 1 + t.Draw(3)
		s.Spawn(p.p, "again", func() {
			for j := 0; j < again; j++ {
				simrt.Yield("op")
				enterAdd()
				p.f.VerifRotate1()
				leaveAdd()
				s.Probe("rotate1-with-nothing-to-rotate")
			}
		})
	}
	if rotation {
		weeks := 1 + t.Draw(3)
		jumps := 1 + t.Biased(3, 2, 3) // mostly one rotation, sometimes two or three in a row
		s.Spawn(p.p, "clock", func() {
			for j := 0; j < jumps; j++ {
				simrt.Yield("clock:wait")
				s.Advance(time.Duration(weeks) * 7 * 24 * time.Hour)
				s.Probe("clock-jump")
				if j > 0 {
					s.Probe("second-rotation")
				}
				if openMode != 2 {
					// No timer armed: rotate the way Read and the timer do.
					enterAdd()
					p.f.VerifRotate1()
					leaveAdd()
				}
			}
		})
	}
	if s.MaxSteps > 200000 {
		s.MaxSteps = 200000
	}
	w.finishRun(100000)
	if w.viol == nil {
		w.checkConservation(true)
	}
	return w.viol
}

func scripts2str(sc [][]op) []string {
	var out []string
	for _, s := range sc {
		var sb strings.Builder
		for _, o := range s {
			if o.kind == 0 {
				fmt.Fprintf(&sb, "c[%d]+=%d ", o.idx, o.n)
			} else {
				fmt.Fprintf(&sb, "stk[%d]@%d ", o.idx, o.site)
			}
		}
		out = append(out, strings.TrimSpace(sb.String()))
	}
	return out
}

// checkConservation is clause (b)/(c)/(d) of C03: persisted + pending never
// exceeds the increments begun; at quiescence it equals them, and with a file
// open nothing is pending.
func (w *world) checkConservation(final bool) {
	w.refreshViews()
	if w.viol != nil {
		return
	}
	pers, ok := w.persisted()
	if !ok {
		return
	}
	pend := w.pending(false)
	names := map[string]bool{}
	for n := range w.begun {
		names[n] = true
	}
	for n := range pers {
		names[n] = true
	}
	for n := range pend {
		names[n] = true
	}
	for n := range names {
		if w.exceeds(n, pers[n], pend[n]) {
			w.fail("upper-bound", "counter %q: persisted %d + pending %d exceeds the %d (+%d*2^64) begun", short(n), pers[n], pend[n], w.begun[n], w.begunHi[n])
			return
		}
		if w.satur && (w.begunHi[n] > 0 || w.begun[n] >= uint64(1)<<33-1) {
			// (per name: a counter that only ever got small amounts is held to the exact clauses below)
			// Near the saturation limits only the upper bound and no-wrap clauses
			// apply (persisted values: value-monotone per snapshot). No wrap for
			// the pending amount: once everything has returned, what is held
			// (persisted + pending) is at least min(begun, 2^33-1) - a pending
			// amount that wrapped instead of sticking falls below that.
			if final {
				const maxExtra = uint64(1)<<33 - 1
				floor := w.begun[n]
				if w.begunHi[n] > 0 || floor > maxExtra {
					floor = maxExtra
				}
				held, carry := bits.Add64(pers[n], pend[n], 0)
				if carry == 0 && held < floor {
					w.fail("wrapped", "counter %q: %d (+%d*2^64) were added, yet persisted %d + pending %d is below %d: a value wrapped instead of sticking at its limit", short(n), w.begun[n], w.begunHi[n], pers[n], pend[n], floor)
					return
				}
			}
			continue
		}
		total := pers[n] + pend[n]
		if final {
			if total != w.begun[n] {
				w.fail("conservation", "counter %q: after all calls returned persisted %d + pending %d != %d added", short(n), pers[n], pend[n], w.begun[n])
				return
			}
			if pend[n] != 0 && recordable(n) {
				// (the process that holds the amount must be the one whose file is open)
				for _, p := range w.procs {
					if !p.fileOpen() {
						continue
					}
					for _, cn := range p.allCounters() {
						if cn.Name() != n {
							continue
						}
						if _, _, _, extra, _ := cn.VerifState(); extra != 0 {
							w.fail("nothing-pending", "counter %q: the counter file is open and all calls have returned, yet %d remain in memory (file has %d of %d)", short(n), pend[n], pers[n], w.begun[n])
							return
						}
					}
				}
			}
		}
	}
}

// recordable reports whether the v1 format has a record for the name (1 to
// 4096 bytes). Counts on any other name legitimately stay in memory.
func recordable(name string) bool { return len(name) >= 1 && len(name) <= 4096 }
