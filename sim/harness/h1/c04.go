package main

import (
	"fmt"
	"os"
	"path/filepath"
	"runtime/debug"
	"strings"
	"time"

	"golang.org/x/telemetry/internal/counter"
	"golang.org/x/telemetry/internal/verifsim/hlib"
	"golang.org/x/telemetry/internal/verifsim/ref/refformat"
	"golang.org/x/telemetry/internal/verifsim/simrt"
)

var collidePool = refformat.CollidingNames("k", 6)

// longCollidePool: long names (each fills most of a quarter page) that hash to
// the same bucket as collidePool: chains that run across several pages, so that
// a process with a stale mapping has to follow a chain beyond it.
var longCollidePool = func() []string {
	want := refformat.Hash(collidePool[0])
	var out []string
	for i := 0; len(out) < 14 && i < 1<<17; i++ {
		n := longName(fmt.Sprintf("LC%d/", i), 3600+(i%7)*50)
		if refformat.Hash(n) == want {
			out = append(out, n)
		}
	}
	return out
}()

// namePool draws a pool of counter names containing same-bucket (colliding)
// names, ordinary names, long names that make records cross pages, and names
// sized so that a record ends exactly at the reserved tail of a page.
func namePool(t *simrt.Tape, n int, allowHuge bool) []string {
	var pool []string
	for i := 0; i < n; i++ {
		switch t.Biased(5, 1, 3) {
		case 0:
			pool = append(pool, fmt.Sprintf("n%d", i))
		case 1:
			pool = append(pool, collidePool[t.Draw(len(collidePool))])
		case 2:
			pool = append(pool, longName(fmt.Sprintf("L%d/", i), 3000+t.Draw(1097)))
		case 3:
			// 16+len rounds to a multiple of 32: choose lengths around the boundary
			pool = append(pool, longName(fmt.Sprintf("B%d/", i), 16*(1+t.Draw(250))+t.Draw(3)-1+16))
		case 4:
			if t.Bool(1, 3) {
				// names no record can hold: empty, or longer than the format allows
				if t.Bool(1, 2) {
					pool = append(pool, "")
				} else {
					pool = append(pool, longName(fmt.Sprintf("X%d/", i), 4097+t.Draw(3000)))
				}
				break
			}
			if allowHuge {
				pool = append(pool, longName(fmt.Sprintf("H%d/", i), 4096-t.Draw(3)))
			} else {
				pool = append(pool, fmt.Sprintf("m%d", i))
			}
		}
	}
	// de-duplicate, keep order
	seen := map[string]bool{}
	var out []string
	for _, p := range pool {
		if !seen[p] {
			seen[p] = true
			out = append(out, p)
		}
	}
	return out
}

type killPlan struct {
	proc  int
	step  int    // kill when the global step count reaches this (if class == "")
	class string // kill right after the victim's k-th step whose label contains class
	k     int
	seen  int
	done  bool
}

// (the record-level compare-and-swap, on the limit word and on a bucket head or
// link, has its own class: "CompareAndSwap @file.go" would be used up by the
// two of file.register)
var killClasses = []string{"", "m.mapping.Data[off])).CompareAndSwap", "f.counters.CompareAndSwap", "fs:writeat", "atomic.StoreUint32", "next.Store", "fs:mmap", "m.mapping.Data[off])).Load", "s.bits.CompareAndSwap", "fs:fstat", "fs:open-create"}

func drawKills(t *simrt.Tape, nprocs, max, horizon int) []*killPlan {
	var ks []*killPlan
	n := t.Biased(max+1, 1, 2)
	for i := 0; i < n; i++ {
		k := &killPlan{proc: t.Draw(nprocs)}
		ci := t.Draw(len(killClasses))
		k.class = killClasses[ci]
		if k.class == "" {
			k.step = 1 + t.Draw(horizon)
			if t.Bool(1, 3) {
				k.step = 1 + t.Draw(8*horizon) // late in the run: second and third pages, long chains
			}
		} else {
			k.k = 1 + t.Draw(6)
			if t.Bool(1, 3) {
				k.k = 1 + t.Draw(60)
			}
		}
		ks = append(ks, k)
	}
	return ks
}

func (w *world) applyKills(ks []*killPlan, tk *simrt.Task, lastLabel string) {
	for _, k := range ks {
		if k.done {
			continue
		}
		victim := w.procs[k.proc]
		if k.class == "" {
			if w.s.Steps >= k.step {
				k.done = true
				w.killProc(victim, "step")
			}
			continue
		}
		if tk.Proc == victim.p && strings.Contains(lastLabel, k.class) {
			k.seen++
			if k.seen == k.k {
				k.done = true
				w.killProc(victim, k.class)
			}
		}
	}
}

func (w *world) killProc(p *proc, why string) {
	if p.p.Dead() {
		return
	}
	// Never kill the last live process: the survivors' clauses need one.
	live := 0
	for _, q := range w.procs {
		if !q.p.Dead() {
			live++
		}
	}
	if live <= 1 {
		return
	}
	w.s.Kill(p.p)
	w.s.Probe("kill:" + why)
}

// scenarioC04: 2..4 processes with independent file objects and mappings share
// one counter file; kills at arbitrary steps; strict decode after every step.
func scenarioC04(c *hlib.RunCtx) *hlib.Violation {
	t := c.Tape
	start := baseTime(c)
	w := newWorld(c, start)
	defer w.close()
	s := w.s
	w.strict = true
	w.satur = c.Flag("family") == "saturation"
	thorough := c.Flag("tier") == "thorough"
	windowsOn := c.Flag("windows") != "" && c.Flag("windows") != "off"
	realUnmap = windowsOn && t.Bool(1, 2)
	defer func() { realUnmap = false }()

	// Build metadata of varying length (every residue of the 32-byte header
	// rounding, incl. metadata that fills its header exactly).
	if t.Bool(1, 2) {
		w.bi = &debug.BuildInfo{GoVersion: "go1.23.1", Path: "example.com/" + strings.Repeat("p", 1+t.Draw(70)) + "/prog",
			Main: debug.Module{Path: "example.com/prog", Version: "v1.2.3"}}
	}
	nprocs := 2 + t.Draw(3)
	longChain := false
	pool := namePool(t, 2+t.Draw(6), false)
	// In a third of the runs enough long names to fill the first page, so that
	// the processes extend the file and re-map after each other's growth.
	switch t.Draw(4) {
	case 1:
		for i := 0; i < 4; i++ {
			pool = append(pool, longName(fmt.Sprintf("F%d/", i), 3500+t.Draw(500)))
		}
	case 2:
		// one long hash chain growing over three or more pages
		pool = append(pool[:0:0], collidePool[:1+t.Draw(2)]...)
		pool = append(pool, longCollidePool[:8+t.Draw(len(longCollidePool)-7)]...)
		longChain = true
		s.Probe("long-colliding-pool")
	}
	// One run in forty finds the week's file already there, written by an earlier
	// process of the same program (here: by the independent encoder) with one
	// hash chain of more records than a page could hold; the processes find the
	// names at its far end and add one more to it.
	if t.Bool(1, 40) {
		wk := fmt.Sprintf("%d\n", t.Draw(7))
		os.MkdirAll(w.local, 0777)
		os.WriteFile(filepath.Join(w.local, "weekends"), []byte(wk), 0666)
		bi := w.bi
		if bi == nil {
			bi = buildInfo
		}
		if base, meta, ok := learnMeta(w, bi, wk); ok {
			chain := refformat.CollidingNames(fmt.Sprintf("q%d/", t.Draw(50)), 516+t.Draw(40))
			earlier := w.newProc("earlier")
			earlier.p.Exited = true // its increments are in the file; it is not there any more
			var pairs []refformat.Pair
			for i, n := range chain[:len(chain)-1] {
				v := uint64(1 + i%7)
				pairs = append(pairs, refformat.Pair{Name: n, Value: v})
				w.begin(n, v)
				w.begunBy[earlier.p][n] += v
			}
			if data, err := refformat.Encode(meta, pairs, 0); err == nil && os.WriteFile(filepath.Join(w.local, base), data, 0666) == nil {
				pool = append(pool, chain[0], chain[len(chain)-2], chain[len(chain)-1])
				s.Probe("chain-longer-than-a-page-of-records")
			}
		}
	}
	maxOps := 5
	if thorough {
		maxOps = 12
	}
	type thread struct {
		p   *proc
		ops []op
	}
	var threads []thread
	for i := 0; i < nprocs; i++ {
		p := w.newProc(fmt.Sprintf("proc%d", i))
		for _, n := range pool {
			p.counters = append(p.counters, p.f.VerifNewCounter(n))
		}
		nth := 1 + t.Biased(2, 2, 3)
		for j := 0; j < nth; j++ {
			var ops []op
			n := 1 + t.Draw(maxOps)
			if longChain {
				n += 3 // enough distinct long names to reach a third page
			}
			for k := 0; k < n; k++ {
				o := op{idx: t.Draw(len(pool)), n: int64(1 + t.Draw(4))}
				if w.satur && t.Bool(1, 2) {
					// amounts that take a record to its limit in two or three adds: a
					// kill (or another process's look) may fall inside the add that sticks
					o.n = 1<<63 - 1 - int64(t.Draw(3))
					if t.Bool(1, 3) {
						o.n = int64(1)<<62 + int64(t.Draw(1<<20))
					}
				}
				ops = append(ops, o)
			}
			threads = append(threads, thread{p, ops})
		}
	}
	// Sometimes another program opens a counter file of the same name (same
	// base name, version and day, other import path) once the file exists: it is
	// refused and the file is none of its business.
	var foreign *proc
	if t.Bool(1, 6) {
		save := w.bi
		fb := *buildInfo
		if save != nil {
			fb = *save
		}
		fb.Path = "fork.example.org/" + fb.Path[strings.Index(fb.Path, "/")+1:]
		w.bi = &fb
		foreign = w.newProc("foreign")
		foreign.foreign = true
		w.bi = save
		s.Probe("foreign-opener")
	}
	foreignStarted := false
	kills := drawKills(t, nprocs, 3, 600)
	chooseStrategy(c, s, 600)
	var desc []string
	for _, th := range threads {
		desc = append(desc, fmt.Sprintf("p%d:%s", th.p.p.ID, scripts2str([][]op{th.ops})[0]))
	}
	var poolDesc []string
	for _, n := range pool {
		poolDesc = append(poolDesc, short(n))
	}
	c.Sample = map[string]any{"procs": nprocs, "pool": poolDesc, "threads": desc, "kills": len(kills), "real_munmap": realUnmap, "strategy": int(s.Strat)}

	installQuarantine(w, c)
	s.AfterStep = func(tk *simrt.Task) {
		if w.viol != nil {
			return
		}
		w.taskPanics(tk)
		w.refreshViews()
		w.checkValuesBounded()
		w.stateHash()
		w.applyKills(kills, tk, tk.LastLabel)
		if foreign != nil && !foreignStarted {
			for _, v := range w.views {
				if v.dec != nil {
					foreignStarted = true
					s.Spawn(foreign.p, "foreign-open", func() { enterAdd(); foreign.f.VerifRotate1(); leaveAdd() })
					break
				}
			}
		}
	}
	opened := map[*proc]bool{}
	for i, th := range threads {
		th := th
		first := !opened[th.p]
		opened[th.p] = true
		s.Spawn(th.p.p, fmt.Sprintf("p%d.T%d", th.p.p.ID, i), func() {
			if first {
				enterAdd()
				th.p.f.VerifRotate1()
				leaveAdd()
			}
			for i, o := range th.ops {
				if i > 0 {
					simrt.Yield("op")
				}
				w.add(th.p, th.p.counters[o.idx], o.n)
			}
		})
	}
	// Sometimes the week ends while the processes are at work: all of them
	// rotate at about the same moment and race to create next week's file.
	if t.Bool(1, 6) && foreign == nil { // (a foreign opener that creates next week's file first is the excluded case)
		s.Spawn(w.procs[0].p, "clock", func() {
			simrt.Yield("clock:wait")
			s.Advance(8 * 24 * time.Hour)
			s.Probe("week-ends-for-all")
			for _, p := range w.procs {
				p := p
				if p.foreign || p.p.Dead() {
					continue
				}
				s.Spawn(p.p, fmt.Sprintf("p%d.rotate", p.p.ID), func() { enterAdd(); p.f.VerifRotate1(); leaveAdd() })
			}
		})
	}
	if s.MaxSteps > 300000 {
		s.MaxSteps = 300000
	}
	w.finishRun(200000)
	for _, v := range w.views {
		if len(v.last) >= 3*refformat.PageSize {
			s.Probe("file-of-three-pages")
		}
	}
	if w.viol == nil {
		w.checkSurvivors()
	}
	return w.viol
}

// checkValuesBounded: at every instant no counter's value exceeds the increments
// begun on it (by any process, dead or alive).
func (w *world) checkValuesBounded() {
	if w.viol != nil {
		return
	}
	for _, v := range w.views {
		if v.dec == nil || v.err != nil {
			continue
		}
		for n, val := range v.dec.Counts {
			if w.exceeds(n, val, 0) {
				w.fail("value-bounded", "%s: counter %q holds %d but only %d were begun", v.path[strings.LastIndex(v.path, "/")+1:], short(n), val, w.begun[n])
				return
			}
		}
	}
}

// checkSurvivors: at quiescence no survivor failed, nothing is pending in a
// survivor, and every counter lies between the survivors' completed increments
// and that plus what the killed processes had begun.
func (w *world) checkSurvivors() {
	w.refreshViews()
	if w.viol != nil {
		return
	}
	pers, ok := w.persisted()
	if !ok {
		return
	}
	for _, p := range w.procs {
		if p.p.Dead() {
			continue
		}
		if p.foreign {
			// Whether a program with other build metadata is refused is not something
			// the statement says: what it does to the file is judged (well-formed, the
			// header unchanged, nobody else made to fail), not whether it got in.
			if p.fileOpen() {
				w.s.Probe("foreign-opener-got-in")
			}
			continue
		}
		if err := p.f.VerifErr(); err != nil {
			w.fail("survivor-failed", "surviving process %d: counter file entered the error state: %v", p.p.ID, err)
			return
		}
		if !p.fileOpen() {
			w.fail("survivor-failed", "surviving process %d has no open counter file", p.p.ID)
			return
		}
		for _, cn := range p.allCounters() {
			if !recordable(cn.Name()) || (w.satur && w.nearLimit(cn.Name())) {
				continue
			}
			if _, _, _, extra, _ := cn.VerifState(); extra != 0 {
				w.fail("survivor-pending", "surviving process %d: %d of counter %q remain in memory after all calls returned", p.p.ID, extra, short(cn.Name()))
				return
			}
		}
	}
	names := map[string]bool{}
	for n := range w.begun {
		names[n] = true
	}
	for n := range pers {
		names[n] = true
	}
	for n := range names {
		if !recordable(n) {
			continue // its counts stay in the processes' memory by design
		}
		if w.satur && w.nearLimit(n) {
			// near the limit of a record only the per-instant clauses apply
			// (well-formed, never above what was begun, never decreasing)
			continue
		}
		var lo, slack uint64
		for _, p := range w.procs {
			if p.p.Dead() {
				slack += w.begunBy[p.p][n]
			} else {
				lo += w.doneBy[p.p][n]
			}
		}
		if pers[n] < lo || pers[n] > lo+slack {
			w.fail("survivor-sum", "counter %q: file holds %d; survivors completed %d, killed processes had begun %d", short(n), pers[n], lo, slack)
			return
		}
	}
}

// nearLimit: amounts large enough were begun on the name for the in-memory
// extra field or the record itself to stick at its limit.
func (w *world) nearLimit(name string) bool {
	return w.begunHi[name] > 0 || w.begun[name] >= uint64(1)<<33-1
}

var _ = counter.VerifPageSize
var _ = time.Second
