package main

import (
	"encoding/binary"
	"fmt"
	"os"
	"path/filepath"
	"strings"
	"syscall"

	"golang.org/x/telemetry/internal/verifsim/hlib"
	"golang.org/x/telemetry/internal/verifsim/ref/refformat"
	"golang.org/x/telemetry/internal/verifsim/simrt"
)

// ---------------------------------------------------------------- fault plans

var faultErrnos = []syscall.Errno{syscall.ENOENT, syscall.EACCES, syscall.EROFS, syscall.ENOSPC, syscall.EIO, syscall.EMFILE, syscall.EINTR}

// errno index len(faultErrnos) means "short write" for write calls.
var numFaultKinds = len(faultErrnos) + 1

type faultSlot struct {
	idx  int // global index of the file-system call to fail
	kind int
}

type faultPlan struct {
	slots      []faultSlot
	persistent int // 0 none, 1 read-only file system, 2 permission denied on everything, 3 every mmap fails, 4 no hard links, 5 disk full from call `from` on, 6 read-only from call `from` on, 7 mmap fails from call `from` on
	from       int
}

const planSlots = 6 // choices consumed by drawPlan

// drawPlan reads the fault plan from the head of the tape. In generation mode
// the explorer records "no fault" and fills the slots in explicitly for each
// enumerated execution.
func drawPlan(t *simrt.Tape) faultPlan {
	var p faultPlan
	n := t.Fixed(3, 0)
	a := faultSlot{t.Fixed(1<<12, 0), t.Fixed(numFaultKinds, 0)}
	b := faultSlot{t.Fixed(1<<12, 0), t.Fixed(numFaultKinds, 0)}
	p.persistent = t.Fixed(8, 0)
	p.from = a.idx
	if n >= 1 {
		p.slots = append(p.slots, a)
	}
	if n >= 2 {
		p.slots = append(p.slots, b)
	}
	return p
}

func (p faultPlan) install(s *simrt.Sim) {
	s.FaultFn = func(c *simrt.FsCall) error {
		switch p.persistent {
		case 1:
			if c.Mutating || c.Op == "open-create" || c.Op == "create-excl" || c.Op == "createtemp" {
				return syscall.EROFS
			}
		case 2:
			if c.Op != "fstat" {
				return syscall.EACCES
			}
		case 3:
			if c.Op == "mmap" {
				return syscall.ENOMEM
			}
		case 4:
			if c.Op == "link" {
				return syscall.EPERM // a file system without hard links
			}
		case 5:
			if c.Idx >= p.from && c.Mutating && c.Op != "remove" {
				return syscall.ENOSPC
			}
		case 6:
			if c.Idx >= p.from && (c.Mutating || c.Op == "open-create" || c.Op == "create-excl" || c.Op == "createtemp") {
				return syscall.EROFS
			}
		case 7:
			if c.Idx >= p.from && c.Op == "mmap" {
				return syscall.ENOMEM
			}
		}
		for _, sl := range p.slots {
			if sl.idx == c.Idx && sl.kind < len(faultErrnos) {
				return faultErrnos[sl.kind]
			}
		}
		return nil
	}
	s.ShortFn = func(c *simrt.FsCall, n int) int {
		for _, sl := range p.slots {
			if sl.idx == c.Idx && sl.kind == len(faultErrnos) {
				return n / 2
			}
		}
		return n
	}
}

func (p faultPlan) String() string {
	var sb strings.Builder
	for _, sl := range p.slots {
		k := "short-write"
		if sl.kind < len(faultErrnos) {
			k = faultErrnos[sl.kind].Error()
		}
		fmt.Fprintf(&sb, "call#%d:%s ", sl.idx, k)
	}
	if p.persistent != 0 {
		fmt.Fprintf(&sb, "persistent=%d", p.persistent)
		if p.persistent >= 5 {
			fmt.Fprintf(&sb, " from call#%d", p.from)
		}
	}
	return strings.TrimSpace(sb.String())
}

// ---------------------------------------------------------------- the workload

// c05Exec is one execution of the counter-side workload under a fault plan.
// It returns the violation, the number of file-system calls made, and the world's sim.
func c05Exec(c *hlib.RunCtx, t *simrt.Tape) (*hlib.Violation, int) {
	save := c.Tape
	c.Tape = t
	defer func() { c.Tape = save }()
	// Each enumerated execution starts from an empty directory.
	os.RemoveAll(c.Dir)
	os.MkdirAll(c.Dir, 0777)
	plan := drawPlan(t)
	start := baseTime(c)
	w := newWorld(c, start)
	defer w.close()
	s := w.s
	w.strict = false
	plan.install(s)

	dirState := t.Biased(5, 3, 4) // 0 normal, 1 local is a regular file, 2 telemetry dir is a regular file, 3 odd week-end file, 4 weekends deleted mid-run
	switch dirState {
	case 1:
		os.MkdirAll(w.tele, 0777)
		os.WriteFile(w.local, []byte("not a directory"), 0666)
	case 2:
		os.WriteFile(w.tele, []byte("not a directory"), 0666)
	case 3:
		// the week-end file as found: empty, white space, garbage, a directory
		os.MkdirAll(w.local, 0777)
		wkp := filepath.Join(w.local, "weekends")
		switch k := t.Draw(8); k {
		case 7:
			os.MkdirAll(wkp, 0777)
		default:
			os.WriteFile(wkp, []byte([]string{"", "\n", "  \n", "x\n", "9\n", "-1\n", "\xff\n"}[k]), 0666)
		}
		s.Probe("odd-weekends-file")
	}
	if dirState == 0 || dirState >= 3 {
		// the mode file as found: absent, well-formed, cut short (a reader racing a
		// writer, a full disk, a hand edit) or arbitrary bytes; never "off", which
		// would leave nothing to do
		contents := []string{"", "on 2024-01-01", "local", "on 2023-0", "on ", "on 2", "local 2024-01-0", "on 2024-01-01 extra", "\xff\xfe on", " "}
		if k := t.Biased(len(contents), 1, 2); k > 0 {
			os.MkdirAll(w.tele, 0777)
			os.WriteFile(filepath.Join(w.tele, "mode"), []byte(contents[k]), 0666)
			s.Probe("mode-file-as-found")
		}
	}
	nprocs := 1 + t.Biased(2, 2, 3)
	pool := namePool(t, 2+t.Draw(4), false)
	// In a quarter of the workloads enough long names that the file has to grow
	// (extend, re-map) while calls fail or files are deleted under it.
	growth := t.Bool(1, 4)
	if growth {
		for i := 0; i < 5; i++ {
			pool = append(pool, longName(fmt.Sprintf("G%d/", i), 3600+t.Draw(400)))
		}
	}
	type thread struct {
		p   *proc
		ops []op
	}
	var threads []thread
	for i := 0; i < nprocs; i++ {
		p := w.newProc(fmt.Sprintf("proc%d", i))
		for _, n := range pool {
			p.counters = append(p.counters, p.f.VerifNewCounter(n))
		}
		nth := 1 + t.Biased(2, 2, 3)
		for j := 0; j < nth; j++ {
			var ops []op
			n := 1 + t.Draw(4)
			for k := 0; k < n; k++ {
				ops = append(ops, op{idx: t.Draw(len(pool)), n: int64(1 + t.Draw(4))})
			}
			if growth {
				// every long name once, in a tape-chosen rotation
				off := t.Draw(5)
				for k := 0; k < 5; k++ {
					ops = append(ops, op{idx: len(pool) - 5 + (k+off)%5, n: 1})
				}
			}
			threads = append(threads, thread{p, ops})
		}
	}
	rotation := t.Bool(1, 3)
	deleter := t.Bool(1, 4) // another actor deletes the active counter file while it is in use
	chooseStrategy(c, s, 400)
	installQuarantine(w, c)
	s.AfterStep = func(tk *simrt.Task) {
		if w.viol != nil {
			return
		}
		w.taskPanics(tk)
	}
	opened := map[*proc]bool{}
	for i, th := range threads {
		th := th
		first := !opened[th.p]
		opened[th.p] = true
		s.Spawn(th.p.p, fmt.Sprintf("p%d.T%d", th.p.p.ID, i), func() {
			if first {
				enterAdd()
				th.p.f.VerifRotate1()
				leaveAdd()
			}
			for i, o := range th.ops {
				if i > 0 {
					simrt.Yield("op")
				}
				w.add(th.p, th.p.counters[o.idx], o.n)
			}
		})
	}
	if rotation {
		p0 := w.procs[0]
		s.Spawn(p0.p, "clock", func() {
			simrt.Yield("clock:wait")
			s.Advance(8 * 24 * 3600 * 1e9)
			enterAdd()
			p0.f.VerifRotate1()
			leaveAdd()
		})
	}
	if deleter || dirState == 4 {
		env := s.NewProc("other", nil)
		s.Spawn(env, "deleter", func() {
			simrt.Yield("env:wait")
			ents, _ := os.ReadDir(w.local)
			for _, e := range ents {
				if dirState == 4 && e.Name() == "weekends" || deleter && strings.HasSuffix(e.Name(), ".v1.count") {
					os.Remove(filepath.Join(w.local, e.Name()))
					s.Logf("env", "deleted %s", e.Name())
					s.Probe("deleted-in-use")
				}
			}
		})
	}
	c.Sample = map[string]any{"plan": plan.String(), "dir_state": dirState, "procs": nprocs, "threads": len(threads), "rotation": rotation, "deleter": deleter}
	if s.MaxSteps > 200000 {
		s.MaxSteps = 200000
	}
	w.finishRun(100000)
	if w.viol == nil && !deleter {
		w.checkFaultConservation()
	}
	for k, n := range s.FaultsHit {
		c.Notes["fault "+k] += n
	}
	c.Notes["steps-all-executions"] += s.Steps
	return w.viol, s.FsCalls
}

// checkFaultConservation: failures only cause counts to stay in memory; they
// never change the value of any counter. Per name: persisted + pending equals
// the increments made (no kill in this family).
func (w *world) checkFaultConservation() {
	w.lastFs = -1
	w.refreshViews()
	pers := map[string]uint64{}
	for _, v := range w.views {
		if len(v.last) < refformat.PageSize {
			continue // creation failed half-way: nothing could be recorded in it
		}
		dec, err := v.dec, v.err
		if err != nil && len(v.last)%refformat.PageSize != 0 {
			// A short extension write legitimately leaves a partial last page.
			// A process that maps the file at that length records in it (the end
			// of a page is never used by a record), so the page counts: it is
			// read as if the missing bytes were zero.
			padded := make([]byte, (len(v.last)/refformat.PageSize+1)*refformat.PageSize)
			copy(padded, v.last)
			dec, err = refformat.Decode(padded)
			w.s.Probe("partial-last-page")
		}
		if err != nil {
			w.fail("well-formed", "%s is damaged after a failed call: %v", filepath.Base(v.path), err)
			return
		}
		for n, val := range dec.Counts {
			pers[n] += val
		}
	}
	pend := w.pending(true)
	// A failure may make the process it happens in keep counts in memory or drop
	// them; it never adds anything and never costs another process its counts.
	failed := map[*simrt.Proc]bool{}
	for _, fc := range w.s.CallLog {
		// injected or not (a directory found as a regular file, a week-end file
		// that is a directory, a header that no longer matches): a call that failed
		if (fc.Injected || fc.Err != nil) && fc.Proc != nil {
			failed[fc.Proc] = true
		}
	}
	for _, pr := range w.procs {
		if pr.f.VerifErr() != nil || !pr.fileOpen() {
			failed[pr.p] = true
		}
	}
	for n, b := range w.begun {
		var floor uint64
		for pr, by := range w.begunBy {
			if !failed[pr] {
				floor += by[n]
			}
		}
		if have := pers[n] + pend[n]; have > b || have < floor {
			w.fail("fault-conservation", "counter %q: file holds %d, %d pending in memory; %d were added, %d of them by processes none of whose calls failed", short(n), pers[n], pend[n], b, floor)
			return
		}
		if have := pers[n] + pend[n]; have != b {
			w.s.Probe("counts-dropped-after-a-failure")
		}
	}
	for n, v := range pers {
		if _, ok := w.begun[n]; !ok && v != 0 {
			w.fail("fault-conservation", "counter %q nobody incremented holds %d", short(n), v)
			return
		}
	}
}

// scenarioC05: fault enumeration on top of a seeded workload. In exploration
// mode one "run" is the fault-free execution of the seeded workload followed by
// one execution per (file-system call index, error kind) and a sample of pairs;
// a replay tape describes exactly one of those executions.
func scenarioC05(c *hlib.RunCtx) *hlib.Violation {
	if c.Flag("family") == "corruption" {
		return scenarioC05Corruption(c)
	}
	if c.Tape.Replay {
		v, _ := c05Exec(c, c.Tape)
		return v
	}
	gen := c.Tape
	v, ncalls := c05Exec(c, gen)
	c.Note("executions")
	if v != nil {
		return v
	}
	base := append([]uint32(nil), gen.Vals...)
	thorough := c.Flag("tier") == "thorough"
	try := func(n int, a, b faultSlot, persistent int) *hlib.Violation {
		vals := append([]uint32(nil), base...)
		vals[0] = uint32(n)
		vals[1], vals[2] = uint32(a.idx), uint32(a.kind)
		vals[3], vals[4] = uint32(b.idx), uint32(b.kind)
		vals[5] = uint32(persistent)
		rt := simrt.NewReplayTape(vals)
		v, _ := c05Exec(c, rt)
		c.Note("executions")
		if v != nil {
			gen.Vals = vals // the tape that hlib stores is the failing execution
		}
		return v
	}
	if ncalls > 1<<12 {
		ncalls = 1 << 12
	}
	kinds := numFaultKinds
	// every single failure
	for i := 0; i < ncalls; i++ {
		for k := 0; k < kinds; k++ {
			if !thorough && k != len(faultErrnos) && (i+k)%3 != 0 {
				continue // quick tier: a third of the errnos per call, all short writes
			}
			if v := try(1, faultSlot{i, k}, faultSlot{}, 0); v != nil {
				return v
			}
			c.Note("single-faults")
		}
	}
	// persistent directory states
	for p := 1; p <= 4; p++ {
		if v := try(0, faultSlot{}, faultSlot{}, p); v != nil {
			return v
		}
		c.Note("persistent-faults")
	}
	// states that begin in mid-run: the disk fills up, turns read-only, or
	// mapping starts to fail from some call on
	stride := 4
	if thorough {
		stride = 1
	}
	for k := 1; k < ncalls; k += stride {
		for p := 5; p <= 7; p++ {
			if v := try(0, faultSlot{idx: k}, faultSlot{}, p); v != nil {
				return v
			}
			c.Note("persistent-from-faults")
		}
	}
	// pairs: all for small workloads in the thorough tier, a sample otherwise
	r := simrt.NewRand(uint64(len(base))*7919 + uint64(ncalls))
	npairs := 20
	if thorough {
		npairs = 150
		if ncalls <= 60 {
			npairs = 0
			for i := 0; i < ncalls; i++ {
				for j := i + 1; j < ncalls; j++ {
					if v := try(2, faultSlot{i, (i + j) % kinds}, faultSlot{j, (i * j) % kinds}, 0); v != nil {
						return v
					}
					c.Note("pair-faults")
				}
			}
		}
	}
	for n := 0; n < npairs && ncalls >= 2; n++ {
		i, j := r.Intn(ncalls), r.Intn(ncalls)
		if i == j {
			continue
		}
		if v := try(2, faultSlot{i, r.Intn(kinds)}, faultSlot{j, r.Intn(kinds)}, 0); v != nil {
			return v
		}
		c.Note("pair-faults")
	}
	c.Note("nontrivial")
	return nil
}

// ---------------------------------------------------------------- corruption at rest

type damage struct {
	desc string
}

// corruptFile builds a valid counter file for the given metadata and damages
// it. It returns the bytes and a description of the damage.
// corruptNone makes corruptFile hand out the file it built without damaging it.
var corruptNone bool

func corruptFile(t *simrt.Tape, meta string, forLibrary bool) ([]byte, string, []string) {
	var pairs []refformat.Pair
	n := 1 + t.Draw(8)
	coll := refformat.CollidingNames("q", 5)
	for i := 0; i < n; i++ {
		var name string
		switch t.Draw(4) {
		case 0:
			name = fmt.Sprintf("ctr%d", i)
		case 1:
			name = coll[i%len(coll)] + fmt.Sprintf("#%d", i/len(coll))
			if i < len(coll) {
				name = coll[i]
			}
		case 2:
			name = fmt.Sprintf("stack%d\nexample.com/pkg.F:+1,+0x10\n\".G:+2,+0x20", i) // stack name with a ditto mark
		case 3:
			name = longName(fmt.Sprintf("L%d/", i), 3000+t.Draw(1000))
		}
		// (a third of the records hold zero: a slot allocated but never counted into)
		val := uint64(1 + t.Draw(100))
		if t.Bool(1, 3) {
			val = 0
		}
		pairs = append(pairs, refformat.Pair{Name: name, Value: val})
	}
	seen := map[string]bool{}
	var uniq []refformat.Pair
	for _, p := range pairs {
		if !seen[p.Name] {
			seen[p.Name] = true
			uniq = append(uniq, p)
		}
	}
	data, err := refformat.Encode(meta, uniq, t.Draw(3))
	if err != nil {
		panic(err)
	}
	d, err := refformat.Decode(data)
	if err != nil {
		panic("encoder produced an undecodable file: " + err.Error())
	}
	h := d.HdrLen
	if !forLibrary && t.Bool(1, 24) {
		// a file of many pages, nearly all of them still free (a file grown for
		// long names since removed from the chains, or preallocated): 8 MiB and
		// more, so that lengths read from the wrong place can still lie inside it
		data = append(data, make([]byte, 8<<20+t.Draw(64)*refformat.PageSize-len(data)%refformat.PageSize)...)
	}
	put32 := func(off uint32, v uint32) {
		if int(off)+4 <= len(data) {
			binary.LittleEndian.PutUint32(data[off:], v)
		}
	}
	rec := func() refformat.Record { return d.Records[t.Draw(len(d.Records))] }
	var descs []string
	ndamage := 1 + t.Biased(3, 2, 3)
	if corruptNone {
		ndamage = 0
	}
	for k := 0; k < ndamage; k++ {
		switch t.Draw(12) {
		case 0: // random bytes
			cnt := 1 + t.Draw(8)
			for i := 0; i < cnt && len(data) > 0; i++ {
				off := t.Draw(len(data))
				data[off] = byte(t.Draw(256))
			}
			descs = append(descs, "random bytes")
		case 1: // truncation
			lens := []int{0, 10, int(h), int(h) + 100, refformat.PageSize - 1, refformat.PageSize, refformat.PageSize + 5, len(data) - 1, len(data) / 2}
			l := lens[t.Draw(len(lens))]
			if l < len(data) && l >= 0 {
				data = data[:l]
			}
			descs = append(descs, fmt.Sprintf("truncated to %d", l))
		case 2: // header length
			vals := []uint32{0, 4, 28, 31, 32, 33, 64, h + 32, h - 32, refformat.PageSize, refformat.PageSize + 1, 0xffffffff}
			// header lengths that put the limit word and the table at and across the end
			// of the data, aligned and not
			for _, back := range []uint32{4, 5, 6, 7, 8, 12, 2052, 2053, 2056} {
				if uint32(len(data)) > back {
					vals = append(vals, uint32(len(data))-back)
				}
			}
			vals = append(vals, h+1, h+2, h+34)
			v := vals[t.Draw(len(vals))]
			put32(28, v)
			descs = append(descs, fmt.Sprintf("header length %d", v))
		case 3: // limit
			vals := []uint32{0, 8, h, h + 4 + 64, h + 4 + 2044, d.Limit + 1, d.Limit - 32, uint32(len(data)) + 32, uint32(len(data)) + 3*refformat.PageSize + 8, 0x7fffffff, 0xffffffff} // h+4+64, h+4+2044: inside the hash table
			if forLibrary {
				// The library honours the recorded limit when it grows the file: a
				// limit of gigabytes makes it create and map a sparse file of that
				// size, whose (legitimately bounded) chain walks cannot be simulated.
				// Limits so close to 2^32 that the 32-bit arithmetic wraps are kept.
				vals = append(vals[:len(vals)-2], 0xffffff00, 0xffffffe0, 0xffffc020)
			}
			v := vals[t.Draw(len(vals))]
			put32(h, v)
			descs = append(descs, fmt.Sprintf("limit %#x", v))
		case 4: // bucket head
			r := rec()
			vals := []uint32{40, h + 8, r.Off + 1, d.Limit + 64, uint32(len(data)) + 64, 0xfffffff0, r.Off, 0xfffffff8, 0xffffffe8, uint32(len(data)) - 8, uint32(len(data)) - 16}
			v := vals[t.Draw(len(vals))]
			b := uint32(t.Draw(refformat.NumHash))
			if t.Bool(1, 2) {
				b = r.Bucket
			}
			put32(h+4+4*b, v)
			descs = append(descs, fmt.Sprintf("bucket %d head %#x", b, v))
		case 5: // name length
			r := rec()
			vals := []uint32{0, 0x00ffffff, 0xffffffff, uint32(len(data)), 5000, uint32(len(r.Name)) + 64, uint32(len(data)) - r.Off - 16, uint32(len(data)) - r.Off - 15} // the last two: a name reaching exactly the end of the file, and one byte beyond
			v := vals[t.Draw(len(vals))]
			put32(r.Off+8, v)
			descs = append(descs, fmt.Sprintf("record %#x name length %#x", r.Off, v))
		case 6: // self loop
			r := rec()
			put32(r.Off+12, r.Off)
			descs = append(descs, fmt.Sprintf("record %#x (%q) links to itself", r.Off, short(r.Name)))
		case 7: // longer cycle: last record of some chain links back to the head of its chain
			r := rec()
			if int(h+4+4*r.Bucket)+4 > len(data) {
				break
			}
			headOff := binary.LittleEndian.Uint32(data[h+4+4*r.Bucket:])
			// find the tail of r's chain
			tail := r
			for _, x := range d.Records {
				if x.Bucket == r.Bucket && x.Next == 0 {
					tail = x
				}
			}
			put32(tail.Off+12, headOff)
			descs = append(descs, fmt.Sprintf("chain of bucket %d made cyclic (%#x -> %#x)", r.Bucket, tail.Off, headOff))
		case 8: // link into another bucket's record (shared tail / cycle across chains)
			r, q := rec(), rec()
			put32(r.Off+12, q.Off)
			descs = append(descs, fmt.Sprintf("record %#x links to %#x", r.Off, q.Off))
		case 9: // next beyond file / into header / unaligned
			r := rec()
			vals := []uint32{12, h + 4, uint32(len(data)) + 32, 0xfffffff0, r.Off + 7, 0xffffffff, 0xfffffff8, 0xffffffe8, uint32(len(data)) - 8, uint32(len(data)) - 16}
			v := vals[t.Draw(len(vals))]
			put32(r.Off+12, v)
			descs = append(descs, fmt.Sprintf("record %#x next %#x", r.Off, v))
		case 10: // garbage metadata inside the header
			if h > 40 && len(data) > int(h) {
				off := 32 + t.Draw(int(h)-32)
				data[off] = []byte{0, '\n', ':', 0xff}[t.Draw(4)]
			}
			descs = append(descs, "metadata byte")
		case 11: // value saturated / prefix damaged
			if t.Bool(1, 2) {
				r := rec()
				if int(r.Off)+8 <= len(data) {
					binary.LittleEndian.PutUint64(data[r.Off:], ^uint64(0))
				}
				descs = append(descs, "value at maximum")
			} else if len(data) > 27 {
				data[t.Draw(27)] ^= 0x20
				descs = append(descs, "prefix byte")
			}
		}
	}
	if forLibrary && int(h)+4 <= len(data) {
		// Random bytes can hit the limit word too: the same exclusion as in the
		// targeted limit damage applies (a sparse file of many megabytes, whose
		// bounded walks cannot be simulated within the step budget).
		if lim := binary.LittleEndian.Uint32(data[h:]); int64(lim) > int64(len(data))+8*refformat.PageSize && lim < 0xffff0000 {
			put32(h, d.Limit)
			descs = append(descs, fmt.Sprintf("(limit %#x not kept)", lim))
		}
	}
	var names []string
	for _, p := range uniq {
		names = append(names, p.Name)
	}
	return data, strings.Join(descs, "; "), names
}

// scenarioC05Corruption: a counter file is damaged at rest, then opened and
// used by the library. Oracle: totality only (no panic, no fault, every call
// returns within the step budget).
func scenarioC05Corruption(c *hlib.RunCtx) *hlib.Violation {
	t := c.Tape
	start := baseTime(c)
	w := newWorld(c, start)
	defer w.close()
	s := w.s
	wk := fmt.Sprintf("%d\n", t.Draw(7))
	os.MkdirAll(w.local, 0777)
	os.WriteFile(filepath.Join(w.local, "weekends"), []byte(wk), 0666)
	base, meta, ok := learnMeta(w, buildInfo, wk)
	if !ok {
		panic("learnMeta failed")
	}
	// One thread per process here: really unmap, so that a remap loop does not
	// pile up poisoned mappings until mmap itself fails.
	realUnmap = true
	defer func() { realUnmap = false }()
	// One file in twenty is not damaged at all but was grown to 4 GiB and more while
	// nobody had it open (sparse: every byte of its content is intact): lengths no
	// longer fit 32 bits. (Not combined with damage: a chain made cyclic is walked
	// for as many steps as the file has room for records, 2^27 here, which is
	// bounded and cannot be simulated within the step budget.)
	huge := t.Bool(1, 20)
	corruptNone = huge
	data, desc, stored := corruptFile(t, meta, true)
	corruptNone = false
	path := filepath.Join(w.local, base)
	if err := os.WriteFile(path, data, 0666); err != nil {
		panic(err)
	}
	if huge {
		if os.Truncate(path, 1<<32+int64(t.Draw(4))*refformat.PageSize) == nil {
			desc = "intact, grown to 4 GiB and more"
			s.Probe("file-of-4-GiB-at-rest")
		}
	}
	c.Note("nontrivial")
	// names: the ones in the file, new ones that collide with them, fresh ones
	names := append([]string{"fresh1", "fresh2"}, stored...)
	names = append(names, refformat.CollidingNames("q", 5)...)
	names = append(names, "ctr0", "ctr1", "ctr2", "stack0\nexample.com/pkg.F:+1,+0x10\n\".G:+2,+0x20")
	nprocs := 1 + t.Biased(2, 3, 4)
	chooseStrategy(c, s, 300)
	installQuarantine(w, c)
	s.AfterStep = func(tk *simrt.Task) {
		if w.viol == nil {
			w.taskPanics(tk)
		}
	}
	for i := 0; i < nprocs; i++ {
		p := w.newProc(fmt.Sprintf("proc%d", i))
		nops := 1 + t.Draw(6)
		var idxs []int
		for k := 0; k < nops; k++ {
			idxs = append(idxs, t.Draw(len(names)))
		}
		s.Spawn(p.p, p.p.Name, func() {
			enterAdd()
			p.f.VerifRotate1()
			leaveAdd()
			for i, ix := range idxs {
				if i > 0 {
					simrt.Yield("op")
				}
				cn := p.f.VerifNewCounter(names[ix])
				p.counters = append(p.counters, cn)
				w.add(p, cn, 1)
			}
		})
	}
	c.Sample = map[string]any{"damage": desc, "size": len(data), "procs": nprocs}
	// A walk over a (bounded) chain in a damaged file of a few pages legitimately
	// takes tens of thousands of scheduling points.
	s.MaxSteps = 600000
	w.finishRun(300000)
	return w.viol
}
