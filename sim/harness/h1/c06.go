package main

import (
	"crypto/sha256"
	"fmt"
	"os"
	"path/filepath"
	"runtime/debug"
	"strings"

	"golang.org/x/telemetry/internal/verifsim/hlib"
	"golang.org/x/telemetry/internal/verifsim/ref/refformat"
	"golang.org/x/telemetry/internal/verifsim/simrt"
)

// C06 in this family: (a) Parse on the bytes of a live file after every step
// of a concurrent multi-process history (every intermediate state such a
// history produces: reserved-but-unlinked records, dead records, half-grown
// files): Parse must return, and whenever the independent decoder accepts the
// snapshot, must yield the same metadata and pairs; (b) Parse on files damaged
// at rest must return an error or a result within the loop budget, and on the
// undamaged file must agree with the independent decoder.

func scenarioC06(c *hlib.RunCtx) *hlib.Violation {
	if c.Flag("family") == "corruption" {
		return scenarioC06Corruption(c)
	}
	if c.Flag("family") == "wellformed" {
		// (c) the well-formed files of the C10 histories (names of every shape and
		// size, stack names with methods and closures): only what Parse says counts here.
		if c.Tape.Bool(1, 2) {
			return scenarioC06Encoded(c)
		}
		if v := scenarioC10(c); v != nil && strings.HasPrefix(v.Invariant, "parse-") {
			v.Property = "C06"
			return v
		}
		return nil
	}
	// (a) ride on the C04 world with the Parse oracle switched on.
	c.Flags["parse-snapshots"] = "1"
	// The world's other oracles belong to C03/C04; the known C03 defect is kept
	// out of the way so that runs are not cut short by it.
	c.Flags["windows"] = "munmap-with-holders"
	if v := scenarioC04(c); v != nil && strings.HasPrefix(v.Invariant, "parse-") {
		v.Property = "C06"
		return v
	}
	return nil
}

// parseSnapshot is called for every changed snapshot when the Parse oracle is on.
func (w *world) parseSnapshot(v *view) {
	if len(v.last) == 0 {
		return
	}
	if v.err == nil && v.dec != nil {
		w.compareParse(v)
		w.c.Note("parse-compared")
		return
	}
	// Not (yet) well-formed: totality only.
	_, err := parseBounded(v.path, v.last)
	if te, ok := err.(*totalityError); ok {
		w.fail("parse-"+te.kind, "Parse on a %d-byte intermediate snapshot of %s: %s", len(v.last), filepath.Base(v.path), te.msg)
	}
	w.c.Note("parse-total-only")
}

func scenarioC06Corruption(c *hlib.RunCtx) *hlib.Violation {
	t := c.Tape
	start := baseTime(c)
	w := newWorld(c, start)
	defer w.close()
	wk := fmt.Sprintf("%d\n", t.Draw(7))
	os.MkdirAll(w.local, 0777)
	os.WriteFile(filepath.Join(w.local, "weekends"), []byte(wk), 0666)
	bi := buildInfo
	if t.Bool(1, 2) {
		bi = &debug.BuildInfo{GoVersion: "go1.23.1", Path: "example.com/" + strings.Repeat("p", 1+t.Draw(70)) + "/prog",
			Main: debug.Module{Path: "example.com/prog", Version: "v1.2.3"}}
	}
	_, meta, ok := learnMeta(w, bi, wk)
	if !ok {
		// The library's own header is not one the strict decoder reads (C10's
		// business); Parse is exercised on metadata written from the documentation.
		meta = refformat.MetaText([][2]string{{"TimeBegin", "2024-03-01T00:00:00Z"}, {"TimeEnd", "2024-03-08T00:00:00Z"}, {"Program", bi.Path}, {"Version", "v1.2.3"},
			{"GoVersion", bi.GoVersion}, {"GOOS", "linux"}, {"GOARCH", "amd64"}})
		c.Note("learnmeta-fallback")
	}
	c.Note("nontrivial")
	data, desc, _ := corruptFile(t, meta, false)
	c.Sample = map[string]any{"damage": desc, "size": len(data)}
	w.s.Logf("case", "%s", desc)
	pf, err := parseBounded("damaged.v1.count", data)
	if te, ok := err.(*totalityError); ok {
		w.fail("parse-"+te.kind, "Parse on a damaged file (%s): %s", desc, te.msg)
		return w.viol
	}
	// If the damage left the file well-formed, Parse must read it faithfully.
	if d, derr := refformat.DecodeDoc(data); derr == nil {
		v := &view{path: "damaged.v1.count", last: data, dec: d}
		w.compareParse(v)
		c.Note("damaged-but-wellformed")
	} else if err == nil && pf != nil {
		c.Note("parse-accepts-what-strict-decoder-rejects") // allowed: Parse is lenient
	}
	// A hash of the outcome makes distinct cases visible in the trace hash.
	if err != nil {
		w.s.Logf("parse", "error")
	} else {
		w.s.Logf("parse", "ok %d", len(pf.Count))
	}
	return w.viol
}

// scenarioC06Encoded: files written by the independent encoder, with the
// library writers' conventions (whole pages, page ends left free) and without
// them (records packed across pages, the last one ending on the last byte of
// the file, the file ending at the limit): whatever the reader of the
// documented layout accepts, Parse must read the same.
func scenarioC06Encoded(c *hlib.RunCtx) *hlib.Violation {
	t := c.Tape
	w := newWorld(c, baseTime(c))
	defer w.close()
	kv := [][2]string{{"TimeBegin", "2024-03-01T00:00:00Z"}, {"TimeEnd", "2024-03-08T00:00:00Z"}, {"Program", "example.com/" + strings.Repeat("p", t.Draw(70)) + "prog"},
		{"Version", "v1.2.3"}, {"GoVersion", "go1.23.1"}, {"GOOS", "linux"}, {"GOARCH", "amd64"}}
	if t.Bool(1, 4) {
		kv = append(kv, [2]string{"Extra: key", "value: with colon "})
	}
	meta := refformat.MetaText(kv[:t.Range(0, len(kv))])
	if t.Bool(1, 12) {
		meta = "" // no metadata at all: what the library's own header writer makes of an empty string
		w.s.Probe("empty-metadata")
	}
	if t.Bool(1, 3) {
		// Metadata of other shapes than the library writes: the lines in another
		// order and under other keys, empty values, values that hold ": ", and
		// sizes up to the cap.
		var sb strings.Builder
		lines := kv[:t.Range(0, len(kv))]
		// (no blank line before the last one, the final blank line always there, no
		// white space around values: what a blank line inside the block or white
		// space around a value means is not something the layout says)
		for i, p := range lines {
			val := p[1]
			switch t.Draw(6) {
			case 1:
				val = ""
			case 2:
				val += ": " + val
			}
			sb.WriteString(fmt.Sprintf("%s%d: %s\n", p[0], i, val))
		}
		meta = sb.String()
		tail := "\n"
		if t.Bool(1, 4) && len(meta) < refformat.MaxMeta-9 {
			// exactly at (or just below) the cap
			pad := refformat.MaxMeta - len(meta) - len(tail) - len("Pad: \n") - t.Draw(2)
			meta += "Pad: " + strings.Repeat("x", pad) + "\n"
			w.s.Probe("metadata-at-cap")
		}
		meta += tail
	}
	var pairs []refformat.Pair
	n := t.Draw(12)
	if t.Bool(1, 4) {
		n = 20 + t.Draw(200)
	}
	for i := 0; i < n; i++ {
		name := genName(t, i, true)
		if t.Bool(1, 3) {
			// record sizes that are exact multiples of the 32-byte unit
			name = fmt.Sprintf("%d|", i) + strings.Repeat("n", 16+32*t.Draw(8)-len(fmt.Sprintf("%d|", i)))
		}
		val := uint64(t.Draw(1 << 20))
		switch t.Biased(5, 3, 4) {
		case 1:
			val = 0
		case 2:
			val = 1<<32 + uint64(t.Draw(1<<20))
		case 3:
			val = ^uint64(0) - uint64(t.Draw(3))
		case 4:
			val = 1 << 63
		}
		pairs = append(pairs, refformat.Pair{Name: name, Value: val})
	}
	if t.Bool(1, 8) {
		// one hash chain of hundreds of records
		for _, nm := range refformat.CollidingNames(fmt.Sprintf("z%d/", t.Draw(50)), 100+t.Draw(300)) {
			pairs = append(pairs, refformat.Pair{Name: nm, Value: uint64(1 + t.Draw(9))})
		}
		w.s.Probe("long-chain-file")
	}
	var data []byte
	var err error
	style := t.Draw(3)
	switch style {
	case 0:
		data, err = refformat.Encode(meta, pairs, t.Draw(3))
	case 1:
		data, err = refformat.EncodeTight(meta, pairs, t.Draw(3), false)
	case 2:
		data, err = refformat.EncodeTight(meta, pairs, t.Draw(3), true)
	}
	if err != nil {
		return nil
	}
	d, derr := refformat.DecodeDoc(data)
	if derr != nil {
		panic("independent encoder and decoder disagree: " + derr.Error())
	}
	c.Note("nontrivial")
	c.Note(fmt.Sprintf("encoded-style-%d", style))
	c.Sample = map[string]any{"style": style, "records": len(pairs), "size": len(data)}
	w.s.Logf("case", "style %d records %d size %d content %x", style, len(pairs), len(data), sha256.Sum256(data))
	if _, strictErr := refformat.Decode(data); strictErr != nil && c.Prop != "C06" {
		// (C06 speaks of every file that is well-formed by the documented layout, and
		// demands a faithful reading of these too; C10's "read identically" is about
		// files laid out as the v1 format lays them out)
		// Well-formed by the layout comment alone, but not as the library's writers
		// lay files out (records across the tail of a page, a file that is not a
		// whole number of pages): a reader may refuse it; if it reads it, it reads
		// what is there.
		if pf, err := parseBounded("encoded.v1.count", data); err != nil {
			if te, total := err.(*totalityError); total {
				w.fail("parse-"+te.kind, "Parse on a file of the independent encoder (style %d): %s", style, te.msg)
			}
			c.Note("tight-file-refused")
			if w.viol != nil {
				w.viol.Property = c.Prop
			}
			return w.viol
		} else {
			_ = pf
		}
	}
	w.compareParse(&view{path: "encoded.v1.count", last: data, dec: d})
	if w.viol != nil {
		w.viol.Property = c.Prop
	}
	return w.viol
}

var _ = simrt.Yield
