package main

import (
	"fmt"
	"os"
	"path/filepath"
	"runtime/debug"
	"strings"

	"golang.org/x/telemetry/internal/verifsim/hlib"
	"golang.org/x/telemetry/internal/verifsim/ref/refformat"
	"golang.org/x/telemetry/internal/verifsim/simrt"
)

// C06 in this family: (a) Parse on the bytes of a live file after every step
// of a concurrent multi-process history (every intermediate state such a
// history produces: reserved-but-unlinked records, dead records, half-grown
// files): Parse must return, and whenever the independent decoder accepts the
// snapshot, must yield the same metadata and pairs; (b) Parse on files damaged
// at rest must return an error or a result within the loop budget, and on the
// undamaged file must agree with the independent decoder.

func scenarioC06(c *hlib.RunCtx) *hlib.Violation {
	if c.Flag("family") == "corruption" {
		return scenarioC06Corruption(c)
	}
	if c.Flag("family") == "wellformed" {
		// (c) the well-formed files of the C10 histories (names of every shape and
		// size, stack names with methods and closures): only what Parse says counts here.
		if v := scenarioC10(c); v != nil && strings.HasPrefix(v.Invariant, "parse-") {
			v.Property = "C06"
			return v
		}
		return nil
	}
	// (a) ride on the C04 world with the Parse oracle switched on.
	c.Flags["parse-snapshots"] = "1"
	// The world's other oracles belong to C03/C04; the known C03 defect is kept
	// out of the way so that runs are not cut short by it.
	c.Flags["windows"] = "munmap-with-holders"
	if v := scenarioC04(c); v != nil && strings.HasPrefix(v.Invariant, "parse-") {
		v.Property = "C06"
		return v
	}
	return nil
}

// parseSnapshot is called for every changed snapshot when the Parse oracle is on.
func (w *world) parseSnapshot(v *view) {
	if len(v.last) == 0 {
		return
	}
	if v.err == nil && v.dec != nil {
		w.compareParse(v)
		w.c.Note("parse-compared")
		return
	}
	// Not (yet) well-formed: totality only.
	_, err := parseBounded(v.path, v.last)
	if te, ok := err.(*totalityError); ok {
		w.fail("parse-"+te.kind, "Parse on a %d-byte intermediate snapshot of %s: %s", len(v.last), filepath.Base(v.path), te.msg)
	}
	w.c.Note("parse-total-only")
}

func scenarioC06Corruption(c *hlib.RunCtx) *hlib.Violation {
	t := c.Tape
	start := baseTime(c)
	w := newWorld(c, start)
	defer w.close()
	wk := fmt.Sprintf("%d\n", t.Draw(7))
	os.MkdirAll(w.local, 0777)
	os.WriteFile(filepath.Join(w.local, "weekends"), []byte(wk), 0666)
	bi := buildInfo
	if t.Bool(1, 2) {
		bi = &debug.BuildInfo{GoVersion: "go1.23.1", Path: "example.com/" + strings.Repeat("p", 1+t.Draw(70)) + "/prog",
			Main: debug.Module{Path: "example.com/prog", Version: "v1.2.3"}}
	}
	_, meta, ok := learnMeta(w, bi, wk)
	if !ok {
		// The library's own header is not one the strict decoder reads (C10's
		// business); Parse is exercised on metadata written from the documentation.
		meta = refformat.MetaText([][2]string{{"TimeBegin", "2024-03-01T00:00:00Z"}, {"TimeEnd", "2024-03-08T00:00:00Z"}, {"Program", bi.Path}, {"Version", "v1.2.3"},
			{"GoVersion", bi.GoVersion}, {"GOOS", "linux"}, {"GOARCH", "amd64"}})
		c.Note("learnmeta-fallback")
	}
	c.Note("nontrivial")
	data, desc, _ := corruptFile(t, meta, false)
	c.Sample = map[string]any{"damage": desc, "size": len(data)}
	w.s.Logf("case", "%s", desc)
	pf, err := parseBounded("damaged.v1.count", data)
	if te, ok := err.(*totalityError); ok {
		w.fail("parse-"+te.kind, "Parse on a damaged file (%s): %s", desc, te.msg)
		return w.viol
	}
	// If the damage left the file well-formed, Parse must read it faithfully.
	if d, derr := refformat.Decode(data); derr == nil {
		v := &view{path: "damaged.v1.count", last: data, dec: d}
		w.compareParse(v)
		c.Note("damaged-but-wellformed")
	} else if err == nil && pf != nil {
		c.Note("parse-accepts-what-strict-decoder-rejects") // allowed: Parse is lenient
	}
	// A hash of the outcome makes distinct cases visible in the trace hash.
	if err != nil {
		w.s.Logf("parse", "error")
	} else {
		w.s.Logf("parse", "ok %d", len(pf.Count))
	}
	return w.viol
}

var _ = simrt.Yield
