package main

import (
	"fmt"
	"os"
	"path/filepath"
	"runtime/debug"
	"strings"
	"time"

	"golang.org/x/telemetry/internal/verifsim/hlib"
	"golang.org/x/telemetry/internal/verifsim/ref/refcal"
	"golang.org/x/telemetry/internal/verifsim/ref/refformat"
	"golang.org/x/telemetry/internal/verifsim/simrt"
)

// calendarInstant draws an instant between 1990 and 2060 with a bias to day,
// month, year and leap boundaries and to the last and first second of a day.
func calendarInstant(t *simrt.Tape) time.Time {
	var day int
	switch t.Draw(5) {
	case 0:
		day = refcal.DaysFromCivil(1990, 1, 1) + t.Draw(25567)
	case 1: // end / start of a year
		y := 1990 + t.Draw(70)
		day = refcal.DaysFromCivil(y, 12, 31) + t.Draw(2)
	case 2: // end of February
		y := 1990 + t.Draw(70)
		day = refcal.DaysFromCivil(y, 2, 27) + t.Draw(4)
	case 3: // end of a month
		y, m := 1990+t.Draw(70), 1+t.Draw(12)
		day = refcal.DaysFromCivil(y, m, 1) - 1 + t.Draw(2)
	case 4:
		day = refcal.DaysFromCivil(2024, 1, 1) + t.Draw(800)
	}
	var ns int64
	switch t.Draw(6) {
	case 0:
		ns = 0
	case 1:
		ns = 86400*1e9 - 1
	case 2:
		ns = 86399 * 1e9
	case 3:
		ns = 1
	case 4:
		ns = int64(t.Draw(86400)) * 1e9
	case 5:
		ns = 86400*1e9 - int64(1+t.Draw(90))*1e9 // within the last 90 s: the timer's one-minute minimum delay
	}
	return time.Unix(int64(day)*86400, 0).UTC().Add(time.Duration(ns))
}

type createdFile struct {
	path string
	now  time.Time // the creating task's last clock reading
	wk   string    // the week-end file when the counter file was created
}

// suspendListed: the known finding C09-suspended-past-the-end is listed (its
// window suspend-resume is closed): the suspend/resume jump is not generated.
var suspendListed bool

// scenarioC09 (counter side): a rotating process over a simulated calendar.
func scenarioC09(c *hlib.RunCtx) *hlib.Violation {
	// Crashes and lost counts in this world are C03/C05's business; the known
	// C03 defect is kept out of the way so that runs are not cut short by it.
	suspendListed = strings.Contains(c.Flag("windows"), "suspend-resume")
	c.Flags["windows"] = "munmap-with-holders"
	v := scenarioC09x(c)
	if v != nil {
		switch v.Invariant {
		case "begin", "end", "name-date", "old-file-written", "rotation-liveness", "rotation-after-suspend", "well-formed", "value-bounded", "early-rotation", "conservation", "nothing-pending", "upper-bound":
			return v
		case "panic", "unbounded-loop", "waits-forever", "memory-fault":
			// The circumstances of this world (odd week-end files, clock set back,
			// calendar extremes, the timer chain) occur in no other: a crash that
			// needs them would be reported by nobody else. (The known C03 finding
			// stays out of the way through its window.)
			return v
		}
		c.Note("foreign-violation-ignored:" + v.Invariant)
		return nil
	}
	return nil
}

func scenarioC09x(c *hlib.RunCtx) *hlib.Violation {
	t := c.Tape
	start := calendarInstant(t)
	w := newWorld(c, start)
	defer w.close()
	s := w.s
	w.strict = true
	// the machine's local zone: what time.Now() carries
	if z := t.Biased(4, 2, 3); z > 0 {
		s.SetZone([]*time.Location{nil, time.FixedZone("UTC-8", -8*3600), time.FixedZone("UTC+14", 14*3600), time.FixedZone("UTC-11:30", -(11*3600 + 1800))}[z])
		s.Probe("machine-in-local-zone")
	}

	// week-end setting
	wkKind := t.Biased(4, 2, 3) // 0 valid digit, 1 missing (library creates it), 2 empty, 3 garbage
	wd := -1
	os.MkdirAll(w.local, 0777)
	wkPath := filepath.Join(w.local, "weekends")
	switch wkKind {
	case 0:
		wd = t.Draw(7)
		form := []string{"%d\n", "%d", "%d\r\n", " %d\n", "\n%d\n", "%d \n"}[t.Biased(6, 1, 2)] // as the library writes it, or as an editor leaves it
		os.WriteFile(wkPath, []byte(fmt.Sprintf(form, wd)), 0666)
	case 2:
		os.WriteFile(wkPath, []byte([]string{"", "\n", "  \n"}[t.Draw(3)]), 0666)
	case 3:
		os.WriteFile(wkPath, []byte([]string{"x\n", "9\n", "-1\n", "77", "\xff\n", "Sunday\n"}[t.Draw(6)]), 0666)
	}

	p := w.newProc("app")
	for i := 0; i < 3; i++ {
		p.counters = append(p.counters, p.f.VerifNewCounter(fmt.Sprintf("c%d", i)))
	}
	// A second program starting at the same moment: both read, and when it is
	// missing create, the same week-end setting.
	var p2 *proc
	if t.Bool(1, 3) {
		save := w.bi
		w.bi = &debug.BuildInfo{GoVersion: "go1.23.1", Path: "example.com/other/prog2", Main: debug.Module{Path: "example.com/other", Version: "v0.9.0"}}
		p2 = w.newProc("app2")
		w.bi = save
		p2.counters = append(p2.counters, p2.f.VerifNewCounter("d0"))
		s.Probe("second-program")
	}
	chooseStrategy(c, s, 300)
	installQuarantine(w, c)

	var created []createdFile
	steppedBack := false
	suspended := false
	seenCalls := 0
	modeOff := false                          // the user has turned telemetry off while the process lives
	frozen := map[string]map[string]uint64{} // old file -> values when a rotation completed
	slackAt := map[string]map[string]uint64{} // frozen file -> name -> amount in flight when that file was frozen
	inflightAt := map[string]uint64{}        // name -> amount in flight when the latest rotation completed
	rotations := 0
	timerDone := map[*simrt.Task]bool{}
	s.AfterStep = func(tk *simrt.Task) {
		if w.viol != nil {
			return
		}
		w.taskPanics(tk)
		for ; seenCalls < len(s.CallLog); seenCalls++ {
			fc := s.CallLog[seenCalls]
			if fc.Op == "open-create" && fc.Mutating && fc.Err == nil && strings.HasSuffix(fc.Path, ".v1.count") {
				wkThen, _ := os.ReadFile(wkPath)
				created = append(created, createdFile{path: filepath.Join(c.Dir, fc.Path), now: fc.Task.LastNow, wk: string(wkThen)})
			}
		}
		w.refreshViews()
		w.checkValuesBounded()
		// A completed rotation freezes every file that is no longer current.
		if strings.HasPrefix(tk.Name, "timer:") && tk.Proc == p.p && tk.Done && !timerDone[tk] {
			timerDone[tk] = true
			cur, _, _ := p.f.VerifCurrent()
			cur2 := ""
			if p2 != nil {
				cur2, _, _ = p2.f.VerifCurrent()
			}
			for _, v := range w.views {
				if p2 != nil && strings.Contains(filepath.Base(v.path), "prog2") {
					continue // the rotating process under observation is the first one
				}
				// (with telemetry turned off meanwhile, a rotation at or after a file's
				// recorded end leaves that file behind as well, whatever the process
				// still holds: nothing is created in its place, nothing more lands in it)
				expiredInModeOff := false
				if modeOff && v.dec != nil {
					if e, err := time.Parse(time.RFC3339, v.dec.Meta["TimeEnd"]); err == nil && !s.NowT().Before(e) {
						expiredInModeOff = true
					}
				}
				if (v.path != cur && v.path != cur2 || expiredInModeOff) && v.dec != nil && frozen[v.path] == nil {
					m := map[string]uint64{}
					for n, val := range v.dec.Counts {
						m[n] = val
					}
					frozen[v.path] = m
					// increments in flight when this file was frozen may still land in it
					sl := map[string]uint64{}
					for n := range w.begun {
						sl[n] = w.begun[n] - w.added[n]
					}
					slackAt[v.path] = sl
					rotations++
					s.Probe("rotation-completed")
				}
			}
			for n := range w.begun {
				inflightAt[n] = w.begun[n] - w.added[n]
			}
		}
		for path, m := range frozen {
			if steppedBack {
				break // after the clock was set back a process may legitimately return to an earlier day's file
			}
			v := w.views[path]
			if v == nil || v.dec == nil {
				continue
			}
			for n, val := range v.dec.Counts {
				if val > m[n]+slackAt[path][n] {
					w.fail("old-file-written", "after rotation completed, %s counter %q went from %d to %d (in flight at rotation: %d)", filepath.Base(path), n, m[n], val, slackAt[path][n])
					return
				}
			}
		}
	}

	phases := 1 + t.Draw(3)
	wkChanged := false
	var jumps []string
	for ph := 0; ph < phases && w.viol == nil; ph++ {
		if ph == 0 {
			s.Spawn(p.p, "open", func() { enterAdd(); p.f.VerifRotate(); leaveAdd() })
			if p2 != nil {
				s.Spawn(p2.p, "open2", func() { enterAdd(); p2.f.VerifRotate(); leaveAdd(); simrt.Yield("op"); w.add(p2, p2.counters[0], 1) })
			}
		}
		if ph > 0 && wkKind <= 1 && t.Bool(1, 4) {
			// between two phases the user changes the week-end day, or the file goes away
			switch t.Draw(4) {
			case 3:
				// ... or the user turns telemetry off while the process lives: the next
				// rotation finds mode off; it creates nothing, and nothing more may land in
				// the expired file
				os.WriteFile(filepath.Join(w.tele, "mode"), []byte([]string{"off", "off 2024-01-01\n"}[t.Draw(2)]), 0666)
				modeOff = true
				s.Probe("mode-off-before-a-rotation")
			case 0:
				os.WriteFile(wkPath, []byte(fmt.Sprintf("%d\n", t.Draw(7))), 0666)
			case 1:
				os.Remove(wkPath)
			case 2:
				// ... or is emptied (a failed save): the next rotation cannot tell the
				// week's end; whatever it does, nothing more may land in the expired file
				os.WriteFile(wkPath, []byte([]string{"", "\n", " \n"}[t.Draw(3)]), 0666)
				s.Probe("weekends-emptied")
			}
			wkChanged = true
			s.Probe("weekends-changed")
		}
		nadd := 1 + t.Draw(2)
		for i := 0; i < nadd; i++ {
			nops := 1 + t.Draw(4)
			var ops []op
			for k := 0; k < nops; k++ {
				ops = append(ops, op{idx: t.Draw(len(p.counters)), n: int64(1 + t.Draw(3))})
			}
			s.Spawn(p.p, fmt.Sprintf("A%d.%d", ph, i), func() {
				for i, o := range ops {
					if i > 0 {
						simrt.Yield("op")
					}
					w.add(p, p.counters[o.idx], o.n)
				}
			})
		}
		// the clock moves while the increments are in flight
		kind := t.Draw(7)
		extra := t.Draw(40)
		if !suspendListed && t.Bool(1, 8) {
			// Known finding C09-suspended-past-the-end: the machine sleeps past the
			// recorded end; while that finding is listed this jump is not generated.
			kind = 7
		}
		s.Spawn(p.p, "clock", func() {
			simrt.Yield("clock:wait")
			end := w.currentEnd(p)
			target := s.NowT()
			switch kind {
			case 0:
				target = end
			case 1:
				target = end.Add(-time.Nanosecond)
			case 2:
				target = end.Add(time.Nanosecond)
			case 3:
				target = s.NowT().Add(time.Duration(1+extra) * 24 * time.Hour)
			case 4:
				target = end.Add(time.Duration(extra) * time.Hour)
			case 5:
				target = s.NowT().Add(time.Duration(extra) * time.Minute)
			}
			if kind == 7 {
				// suspended and resumed: the wall clock is past the recorded end (or just
				// some days ahead), the timers have not moved
				fwd := time.Duration(1+extra) * time.Hour
				if !end.IsZero() && extra%2 == 0 {
					fwd = end.Sub(s.NowT()) + time.Duration(extra)*time.Hour
				}
				jumps = append(jumps, "suspended "+fwd.String())
				suspended = true
				s.StepForward(fwd)
				s.Probe("jump-kind-7")
				return
			}
			if kind == 6 {
				// the wall clock is set back (minutes to days); timers keep running
				back := time.Duration(1+extra) * time.Minute
				if extra%3 == 0 {
					back = time.Duration(1+extra%5) * 24 * time.Hour
				}
				jumps = append(jumps, "back "+back.String())
				steppedBack = true // from this instant on (not from the start of the phase) a return to an earlier day's file is legitimate
				s.StepBack(back)
				s.Probe("jump-kind-6")
				return
			}
			if end.IsZero() && kind != 3 && kind != 5 {
				target = s.NowT().Add(8 * 24 * time.Hour)
			}
			jumps = append(jumps, target.Format(time.RFC3339Nano))
			s.AdvanceTo(target)
			s.Probe(fmt.Sprintf("jump-kind-%d", kind))
		})
		w.finishRun(100000)
	}
	// Let the one-minute minimum timer delay elapse, then quiesce.
	if w.viol == nil {
		if steppedBack {
			// run the clock forward to beyond the recorded end again
			if end := w.currentEnd(p); !end.IsZero() && end.After(s.NowT()) {
				for i := 0; i < 40 && w.viol == nil && s.NowT().Before(end); i++ {
					if at, ok := s.NextTimer(); ok && at.Before(end) && at.After(s.NowT()) {
						s.AdvanceTo(at)
					} else {
						s.AdvanceTo(end)
					}
					w.finishRun(100000)
				}
			}
		}
		// An hour passes (any re-arm delay an implementation may have is over) and
		// the process counts once more (an implementation may rotate on its next
		// increment rather than on a timer): after that it records into a file
		// whose span covers the present.
		s.Advance(time.Hour)
		w.finishRun(100000)
		if w.viol == nil && len(p.counters) > 0 && !p.p.Dead() {
			s.Spawn(p.p, "one-more", func() { w.add(p, p.counters[0], 1) })
			w.finishRun(100000)
		}
	}
	c.Sample = map[string]any{"start": start.Format(time.RFC3339Nano), "weekends_kind": wkKind, "weekday": wd, "phases": phases, "jumps": jumps, "files_created": len(created), "rotations": rotations}
	if w.viol != nil {
		return w.viol
	}
	// (1) every created file: begin, end, name
	wkNow, _ := os.ReadFile(wkPath)
	var prevEnd time.Time // recorded end of the first process's previous file
	for _, cf := range created {
		data, err := os.ReadFile(cf.path)
		if err != nil || len(data) < refformat.PageSize {
			continue
		}
		d, err := refformat.Decode(data)
		if err != nil {
			w.fail("well-formed", "%s: %v", filepath.Base(cf.path), err)
			break
		}
		day := refcal.DayOfUnix(cf.now.Unix())
		if got, want := d.Meta["TimeBegin"], refcal.RFC3339Midnight(day); got != want {
			w.fail("begin", "%s created when the clock read %s: TimeBegin %s, want %s", filepath.Base(cf.path), cf.now.Format(time.RFC3339Nano), got, want)
			break
		}
		if !strings.Contains(filepath.Base(cf.path), "-"+refcal.Date(day)+".v1.count") {
			w.fail("name-date", "%s created on %s does not carry its begin date", filepath.Base(cf.path), refcal.Date(day))
			break
		}
		endT, err := time.Parse(time.RFC3339, d.Meta["TimeEnd"])
		if err != nil {
			w.fail("end", "%s: TimeEnd %q does not parse", filepath.Base(cf.path), d.Meta["TimeEnd"])
			break
		}
		endDay := refcal.DayOfUnix(endT.Unix())
		if d.Meta["TimeEnd"] != refcal.RFC3339Midnight(endDay) || endDay-day < 1 || endDay-day > 7 {
			w.fail("end", "%s: TimeBegin %s TimeEnd %s: not midnight UTC one to seven days later", filepath.Base(cf.path), d.Meta["TimeBegin"], d.Meta["TimeEnd"])
			break
		}
		// the next span's file is started when the recorded end is reached, not before
		if !strings.Contains(filepath.Base(cf.path), "prog2") {
			if !prevEnd.IsZero() && !steppedBack && cf.now.Before(prevEnd) {
				w.fail("early-rotation", "%s was created when the clock read %s, before the end %s of the file in use", filepath.Base(cf.path), cf.now.Format(time.RFC3339Nano), prevEnd.Format(time.RFC3339))
				break
			}
			prevEnd = endT
		}
		cfgDay := -1
		switch wkKind {
		case 0:
			cfgDay = wd
		case 1:
			if len(wkNow) >= 1 && wkNow[0] >= '0' && wkNow[0] <= '6' {
				cfgDay = int(wkNow[0] - '0')
			}
		}
		if wkChanged {
			// the setting that counts is the one in force when the file was created
			cfgDay = -1
			if len(cf.wk) == 2 && cf.wk[0] >= '0' && cf.wk[0] <= '6' && cf.wk[1] == '\n' {
				cfgDay = int(cf.wk[0] - '0')
			}
		}
		if cfgDay >= 0 {
			if want := refcal.NextWeekday(day, cfgDay); endDay != want {
				w.fail("end", "%s: week-end day %d, begin %s: TimeEnd %s, want %s", filepath.Base(cf.path), cfgDay, refcal.Date(day), d.Meta["TimeEnd"], refcal.RFC3339Midnight(want))
				break
			}
		}
	}
	// (2) nothing is lost across rotations
	if w.viol == nil {
		w.checkConservation(true)
	}
	// (3) after the end was reached (and the timer's minimum delay elapsed) the
	// process records into a file whose span covers the present.
	if w.viol == nil && p.fileOpen() {
		name, _, _ := p.f.VerifCurrent()
		if data, err := os.ReadFile(name); err == nil {
			if d, err := refformat.Decode(data); err == nil {
				b, _ := time.Parse(time.RFC3339, d.Meta["TimeBegin"])
				e, _ := time.Parse(time.RFC3339, d.Meta["TimeEnd"])
				now := s.NowT()
				if at, pending := s.NextTimer(); suspended && pending && !now.Before(e) {
					w.fail("rotation-after-suspend", "the machine was suspended and resumed at or after the recorded end: the clock reads %s, the process still records into %s (%s .. %s) and will do so for another %s of waking time, because the rotation timer runs on the monotonic clock",
						now.Format(time.RFC3339Nano), filepath.Base(name), d.Meta["TimeBegin"], d.Meta["TimeEnd"], at.Sub(now))
				} else if now.Before(b) || !now.Before(e) {
					w.fail("rotation-liveness", "clock reads %s, an hour has passed since the last jump, all due timers have fired and the process has counted once more, but it still records into %s (%s .. %s)", now.Format(time.RFC3339Nano), filepath.Base(name), d.Meta["TimeBegin"], d.Meta["TimeEnd"])
				}
			}
		}
	}
	return w.viol
}

// currentEnd reads the recorded end of the process's current file.
func (w *world) currentEnd(p *proc) time.Time {
	name, _, ok := p.f.VerifCurrent()
	if !ok {
		return time.Time{}
	}
	data, err := os.ReadFile(name)
	if err != nil {
		return time.Time{}
	}
	d, err := refformat.Decode(data)
	if err != nil {
		return time.Time{}
	}
	e, _ := time.Parse(time.RFC3339, d.Meta["TimeEnd"])
	return e
}
