package main

import (
	"fmt"
	"os"
	"path/filepath"
	"runtime/debug"
	"strings"
	"syscall"

	"golang.org/x/telemetry/internal/counter"
	"golang.org/x/telemetry/internal/telemetry"
	"golang.org/x/telemetry/internal/verifsim/hlib"
	"golang.org/x/telemetry/internal/verifsim/ref/refformat"
	"golang.org/x/telemetry/internal/verifsim/ref/refstack"
	"golang.org/x/telemetry/internal/verifsim/simrt"
)

// genName builds a counter name of arbitrary content from a few tape draws.
func genName(t *simrt.Tape, tag int, allowNewline bool) string {
	kind := t.Biased(7, 1, 3)
	var n int
	switch t.Draw(5) {
	case 0:
		n = 1 + t.Draw(8)
	case 1:
		n = 1 + t.Draw(64)
	case 2:
		n = 16*(1+t.Draw(255)) + t.Draw(3) - 1 // around the 32-byte record unit
	case 3:
		n = 3900 + t.Draw(197)
	case 4:
		n = 1 + t.Draw(4096)
	}
	if n < 1 {
		n = 1
	}
	if n > 4096 {
		n = 4096
	}
	b := make([]byte, n)
	seed := uint64(tag)*0x9e3779b97f4a7c15 + uint64(t.Draw(1<<16))
	r := simrt.NewRand(seed)
	if kind == 6 && allowNewline {
		// A stack counter as the runtime names frames: methods, closures, generic
		// instantiations and package paths with dots, compressed with ditto marks
		// as the documentation describes (same package as the frame above).
		pkgs := []string{"main", "a/b", "example.com/p.q/r", "gopkg.in/yaml.v3", "runtime"}
		fns := []string{"f", "(*T).m", "T.m", "main.func1", "main.func1.2", "g[...]", "(*T[...]).m", "init.0", "x.y.z"}
		var sb strings.Builder
		fmt.Fprintf(&sb, "%d|stack/c", tag)
		prev := ""
		for i, nf := 0, 1+r.Intn(8); i < nf; i++ {
			pkg := pkgs[r.Intn(len(pkgs))]
			if prev != "" && r.Intn(2) == 0 {
				pkg = prev
			}
			fn := fns[r.Intn(len(fns))]
			if pkg == prev && r.Intn(4) != 0 {
				fmt.Fprintf(&sb, "\n\".%s:+%d,+0x%x", fn, r.Intn(100), r.Intn(4096))
			} else {
				fmt.Fprintf(&sb, "\n%s.%s:+%d,+0x%x", pkg, fn, r.Intn(100), r.Intn(4096))
			}
			prev = pkg
		}
		return sb.String()
	}
	for i := range b {
		switch kind {
		case 0, 1:
			b[i] = "abcdefghijklmnopqrstuvwxyz/:-_0123456789"[r.Intn(40)]
		case 2:
			b[i] = byte(r.Intn(256)) // any byte, incl. NUL, 0xff
		case 3:
			b[i] = byte(0x80 + r.Intn(128)) // not UTF-8
		case 4:
			b[i] = "ab.\"\n"[r.Intn(5)] // dots, ditto marks and newlines: stack-like names
		case 5:
			b[i] = 0
		}
		if !allowNewline && b[i] == '\n' {
			b[i] = '.'
		}
	}
	// make the name unique per tag
	pre := fmt.Sprintf("%d|", tag)
	if len(b) > len(pre) {
		copy(b, pre)
	} else if kind == 5 {
		b[0] = byte(1 + tag%200)
	}
	return string(b)
}

// learnMeta lets a throw-away process create today's counter file in a scratch
// telemetry directory and returns the file name and metadata text the library
// uses for this build and instant. Nothing is reproduced by the harness.
func learnMeta(w *world, bi *debug.BuildInfo, weekendsContent string) (base, meta string, ok bool) {
	saveDir := telemetry.Default
	scratch := filepath.Join(w.c.Dir, "learn")
	os.MkdirAll(filepath.Join(scratch, "local"), 0777)
	if weekendsContent != "" {
		os.WriteFile(filepath.Join(scratch, "local", "weekends"), []byte(weekendsContent), 0666)
	}
	telemetry.Default = telemetry.NewDir(scratch)
	f := counter.VerifNewFile(bi)
	f.VerifRotate1() // on the scheduler goroutine: no scheduling, no faults
	name, _, isOpen := f.VerifCurrent()
	f.VerifClose()
	telemetry.Default = saveDir
	if !isOpen || f.VerifErr() != nil {
		return "", "", false
	}
	data, err := os.ReadFile(name)
	if err != nil {
		return "", "", false
	}
	d, err := refformat.Decode(data)
	if err != nil {
		return "", "", false
	}
	os.RemoveAll(scratch)
	return filepath.Base(name), d.MetaRaw, true
}

func genBuildInfo(t *simrt.Tape) *debug.BuildInfo {
	bi := &debug.BuildInfo{GoVersion: "go1.23.1", Path: "example.com/prog", Main: debug.Module{Path: "example.com/prog", Version: "v1.2.3"}}
	switch t.Biased(9, 1, 2) {
	case 5, 6:
		// a path that keeps the metadata clearly below the 512-byte cap: must be accepted
		bi.Path = "example.com/" + strings.Repeat("q", 100+t.Draw(200)) + "/prog"
	case 7:
		bi.Main.Version = "(devel)" // the usual value for a local build
	case 8:
		bi.Main.Version = "v1.2.3+incompatible"
	case 1:
		bi.Path = "cmd/go" // toolchain program: version = Go version
	case 2:
		bi.GoVersion = "devel go1.24-abcdef X:foo"
	case 3:
		// long path: metadata close to (or beyond) the 512-byte cap
		bi.Path = "example.com/" + strings.Repeat("p", 300+t.Draw(200)) + "/prog"
	case 4:
		bi.Main.Version = "v0.0.0-20240101000000-abcdef123456"
	}
	return bi
}

// scenarioC10: histories of create / increment / close / reopen / extend by one
// or several writers over names of any content; every snapshot is strictly
// decoded, the final content equals the model, the library's own reader agrees
// with the independent decoder, and files written by the independent encoder are
// opened and extended by the library.
func scenarioC10(c *hlib.RunCtx) *hlib.Violation {
	if c.Flag("family") == "encoded" {
		// files written by the independent encoder (any metadata the layout
		// admits, placement unlike the library's) are read identically by the library
		return scenarioC06Encoded(c)
	}
	t := c.Tape
	start := baseTime(c)
	w := newWorld(c, start)
	defer w.close()
	s := w.s
	w.strict = true
	thorough := c.Flag("tier") == "thorough"
	parseCheck := true

	c.Note("nontrivial") // every run writes records that are decoded independently
	bi := genBuildInfo(t)
	wk := fmt.Sprintf("%d\n", t.Draw(7))
	os.MkdirAll(w.local, 0777)
	os.WriteFile(filepath.Join(w.local, "weekends"), []byte(wk), 0666)

	npool := 2 + t.Draw(8)
	var pool []string
	seen := map[string]bool{}
	expanded := map[string]bool{}
	for i := 0; len(pool) < npool && i < 40; i++ {
		n := genName(t, i, true)
		if seen[n] || expanded[refstack.Expand(n)] {
			continue
		}
		seen[n] = true
		expanded[refstack.Expand(n)] = true
		pool = append(pool, n)
	}
	if t.Bool(1, 3) {
		// a few names of one hash bucket: concurrent writers then meet in one chain
		for _, n := range refformat.CollidingNames(fmt.Sprintf("k%d/", t.Draw(20)), 2+t.Draw(3)) {
			if !seen[n] {
				seen[n] = true
				pool = append(pool, n)
			}
		}
	}
	pageRace := t.Bool(1, 5)
	if pageRace {
		// Names of nearly a quarter of a page each, enough of them for several
		// pages: one writer may grow the file by whole pages while another is
		// between placing its record and extending the file for it.
		pool = pool[:0]
		for i, n := 0, 8+t.Draw(6); i < n; i++ {
			pool = append(pool, fmt.Sprintf("P%02d/", i)+strings.Repeat(string(rune('a'+i)), 3400+t.Draw(690)))
		}
		s.Probe("page-race-pool")
	}
	model := map[string]uint64{}

	// Optionally start from a file written by the independent encoder.
	foreign := t.Bool(1, 3)
	if foreign {
		base, meta, ok := learnMeta(w, bi, wk)
		if ok {
			var pairs []refformat.Pair
			for i, n := range pool {
				if t.Bool(1, 2) {
					v := uint64(t.Draw(1000))
					if i == 0 && t.Bool(1, 4) {
						v = ^uint64(0) - uint64(t.Draw(3))
					}
					pairs = append(pairs, refformat.Pair{Name: n, Value: v})
					model[n] = v
				}
			}
			if !pageRace && t.Bool(1, 6) {
				// one hash chain of more records than a page could hold: the library
				// finds names at its far end, and adds one more to it
				chain := refformat.CollidingNames(fmt.Sprintf("q%d/", t.Draw(50)), 516+t.Draw(300))
				for i, n := range chain[:len(chain)-1] {
					v := uint64(1 + i%7)
					pairs = append(pairs, refformat.Pair{Name: n, Value: v})
					model[n] = v
				}
				pool = append(pool, chain[0], chain[len(chain)-2], chain[len(chain)-1]) // the first and the last stored, and one that is not yet in the file
				s.Probe("chain-longer-than-a-page-of-records")
			}
			data, err := refformat.Encode(meta, pairs, t.Draw(4))
			if err != nil {
				panic("refformat.Encode: " + err.Error())
			}
			if err := os.WriteFile(filepath.Join(w.local, base), data, 0666); err != nil {
				panic(err)
			}
			c.Note("foreign-file")
		} else {
			foreign = false
		}
	}

	sessions := 1 + t.Draw(3)
	maxOps := 6
	if thorough {
		maxOps = 16
	}
	chooseStrategy(c, s, 500)
	if pageRace && t.Bool(2, 3) {
		// stall a writer at one of its file-system calls or at a compare-and-swap
		// of the allocation limit while the others carry on
		s.SetDelayRange([]string{"fs:", "CompareAndSwap @file.go"}, 1+t.Rng.Intn(2), 24, 100, 700)
	}
	installQuarantine(w, c)
	lastLimit := map[string]uint32{}
	s.AfterStep = func(tk *simrt.Task) {
		if w.viol != nil {
			return
		}
		w.taskPanics(tk)
		w.refreshViews()
		w.checkValuesBoundedModel(model)
		// placement coverage: (previous limit mod page, record size) pairs
		for _, v := range w.views {
			if v.dec == nil || v.err != nil {
				continue
			}
			if v.dec.Limit != lastLimit[v.path] {
				for _, r := range v.dec.Records {
					if r.End == v.dec.Limit {
						h := uint64(lastLimit[v.path]%refformat.PageSize)<<20 | uint64(len(r.Name))
						c.StateHs[h*0x9e3779b97f4a7c15] = true
					}
				}
				lastLimit[v.path] = v.dec.Limit
			}
		}
	}
	var sampleOps []string
	for sess := 0; sess < sessions && w.viol == nil; sess++ {
		nprocs := 1 + t.Biased(3, 2, 3)
		if pageRace {
			nprocs = 2 + t.Draw(2)
		}
		var procs []*proc
		for i := 0; i < nprocs; i++ {
			p := &proc{p: s.NewProc(fmt.Sprintf("s%dp%d", sess, i), nil), f: counter.VerifNewFile(bi)}
			w.procs = append(w.procs, p)
			w.begunBy[p.p] = map[string]uint64{}
			w.doneBy[p.p] = map[string]uint64{}
			for _, n := range pool {
				p.counters = append(p.counters, p.f.VerifNewCounter(n))
			}
			procs = append(procs, p)
			nops := 1 + t.Draw(maxOps)
			if pageRace {
				nops += 4
			}
			var ops []op
			for k := 0; k < nops; k++ {
				ops = append(ops, op{idx: t.Draw(len(pool)), n: int64(1 + t.Draw(9))})
			}
			sampleOps = append(sampleOps, fmt.Sprintf("s%dp%d:%s", sess, i, scripts2str([][]op{ops})[0]))
			// a process may be started while the others are in the middle of their
			// work (a restart is not only something that happens between sessions)
			lateBy := 0
			if i > 0 && t.Bool(1, 3) {
				lateBy = 1 + t.Draw(120)
				s.Probe("late-starter")
			}
			s.Spawn(p.p, p.p.Name, func() {
				for k := 0; k < lateBy; k++ {
					simrt.Yield("not started yet")
				}
				enterAdd()
				p.f.VerifRotate1()
				leaveAdd()
				for i, o := range ops {
					if i > 0 {
						simrt.Yield("op")
					}
					name := pool[o.idx]
					if model[name] > ^uint64(0)-uint64(o.n) {
						model[name] = ^uint64(0) // saturates
					} else {
						model[name] += uint64(o.n)
					}
					w.add(p, p.counters[o.idx], o.n)
				}
			})
		}
		w.finishRun(200000)
		if w.viol != nil {
			break
		}
		// Session ends: every process closes its mapping (restart).
		for _, p := range procs {
			if err := p.f.VerifErr(); err != nil {
				if strings.Contains(err.Error(), "metadata too l") && len(bi.Path) >= 330 {
					// only a path that brings the metadata near or beyond the cap may be refused
					c.Note("meta-too-long")
					continue
				}
				w.fail("open-failed", "process %s could not open the counter file: %v", p.p.Name, err)
			}
			p.f.VerifClose()
			p.p.Exited = true
		}
	}
	var poolDesc []string
	for _, n := range pool {
		poolDesc = append(poolDesc, fmt.Sprintf("%q", short(n)))
	}
	c.Sample = map[string]any{"pool": poolDesc, "sessions": sessions, "foreign_initial_file": foreign, "ops": sampleOps, "program": short(bi.Path)}
	if w.viol == nil {
		w.checkFinalModel(model, parseCheck)
	}
	return w.viol
}

// checkValuesBoundedModel: a value never exceeds what the model has begun.
func (w *world) checkValuesBoundedModel(model map[string]uint64) {
	if w.viol != nil {
		return
	}
	for _, v := range w.views {
		if v.dec == nil || v.err != nil {
			continue
		}
		for n, val := range v.dec.Counts {
			m, ok := model[n]
			if !ok {
				w.fail("unknown-record", "%s: record for a name nobody wrote: %q", filepath.Base(v.path), short(n))
				return
			}
			if val > m {
				w.fail("value-bounded", "%s: counter %q holds %d, model has %d", filepath.Base(v.path), short(n), val, m)
				return
			}
		}
	}
}

// checkFinalModel: the independent decoder reads back exactly the model, and
// the library's reader (Parse) returns the same metadata and pairs with stack
// names expanded.
func (w *world) checkFinalModel(model map[string]uint64, parseCheck bool) {
	w.lastFs = -1
	w.refreshViews()
	if w.viol != nil {
		return
	}
	anyOpen := false
	got := map[string]uint64{}
	for _, v := range w.views {
		if len(v.last) < refformat.PageSize {
			continue
		}
		anyOpen = true
		if v.err != nil {
			w.fail("well-formed", "%s: %v", filepath.Base(v.path), v.err)
			return
		}
		for n, val := range v.dec.Counts {
			got[n] += val
		}
		if parseCheck {
			w.compareParse(v)
			if w.viol != nil {
				return
			}
		}
	}
	if !anyOpen {
		return
	}
	// What a process still holds in memory was not written (whether that may
	// happen is C03/C04's question, not the format's).
	pend := w.pending(true)
	for n, m := range model {
		// names never incremented have no record and value 0 in the model
		if m == ^uint64(0) {
			if got[n] != m && pend[n] == 0 {
				w.fail("readback", "counter %q: independent decoder reads %d, the saturated value was written", short(n), got[n])
				return
			}
			continue
		}
		if got[n]+pend[n] != m {
			w.fail("readback", "counter %q: independent decoder reads %d (+%d still in memory), %d were written", short(n), got[n], pend[n], m)
			return
		}
	}
	for n := range got {
		if _, ok := model[n]; !ok {
			w.fail("readback", "file holds a counter nobody wrote: %q", short(n))
			return
		}
	}
}

// compareParse runs the library's Parse on the snapshot and compares with the
// independent decoder.
func (w *world) compareParse(v *view) {
	simrt.ResetSchedTick()
	pf, err := parseBounded(v.path, v.last)
	d := v.dec
	if _, total := err.(*totalityError); err != nil && !total {
		seen := map[string]string{}
		for n := range d.Counts {
			x := refstack.Expand(n)
			if o, dup := seen[x]; dup {
				// two stored names expand to the same text: the documentation
				// does not say which wins, and Parse calls the file corrupt
				w.s.Logf("parse", "not judged: %q and %q expand to the same name", short(o), short(n))
				w.c.Note("expanded-names-collide")
				return
			}
			seen[x] = n
		}
	}
	if err != nil {
		w.fail("parse-rejects-wellformed", "Parse rejects %s which the independent decoder accepts: %v", filepath.Base(v.path), err)
		return
	}
	if len(pf.Meta) != len(d.Meta) {
		w.fail("parse-meta", "Parse metadata %v, independent decoder %v", pf.Meta, d.Meta)
		return
	}
	for k, val := range d.Meta {
		if pf.Meta[k] != val {
			w.fail("parse-meta", "Parse metadata %q=%q, independent decoder %q", k, pf.Meta[k], val)
			return
		}
	}
	want := map[string]uint64{}
	for n, val := range d.Counts {
		want[refstack.Expand(n)] = val
	}
	if len(want) != len(d.Counts) {
		return // two stored names expand to the same text: the documentation does not say
	}
	if len(pf.Count) != len(want) {
		w.fail("parse-pairs", "Parse returns %d counters, the file holds %d", len(pf.Count), len(want))
		return
	}
	for n, val := range want {
		g, ok := pf.Count[n]
		if !ok || g != val {
			w.fail("parse-pairs", "counter %q: Parse returns %d (present=%v), the file holds %d", short(n), g, ok, val)
			return
		}
	}
}

type parseOutcome struct {
	f   *counter.File
	err error
}

// parseBounded calls counter.Parse on the scheduler goroutine with a loop
// budget; a panic or an exhausted budget is returned as a special error.
// guarded returns a copy of data that ends on the last byte of a mapped page
// followed by a page without access rights: a read of even one byte beyond the
// slice faults instead of quietly reading the allocator's neighbour. The copy's
// first byte is 8-aligned only if len(data) is a multiple of 8, as for any
// caller's slice; free releases the region.
func guarded(data []byte) (cp []byte, free func()) {
	const pg = 4096
	n := (len(data) + pg - 1) / pg * pg
	region, err := syscall.Mmap(-1, 0, n+pg, syscall.PROT_READ|syscall.PROT_WRITE, syscall.MAP_ANON|syscall.MAP_PRIVATE)
	if err != nil {
		return data, func() {}
	}
	if syscall.Mprotect(region[n:], syscall.PROT_NONE) != nil {
		syscall.Munmap(region)
		return data, func() {}
	}
	cp = region[n-len(data) : n : n]
	copy(cp, data)
	return cp, func() { syscall.Munmap(region) }
}

func parseBounded(name string, data []byte) (f *counter.File, err error) {
	simrt.ResetSchedTick()
	// Parse is handed a buffer of its own: the result must not depend on what
	// becomes of that buffer afterwards (a caller may reuse or unmap it). The
	// buffer is overwritten once Parse has returned and the result is copied
	// only then: names or values that alias the input show up as wrong.
	own := append([]byte(nil), data...)
	scrub := func() {
		for i := range own {
			own[i] = 0xAA
		}
	}
	if len(own)%8 == 0 {
		// (a file image of a whole number of words, as every file the library
		// wrote: the copy keeps the alignment a caller's buffer has)
		cp, free := guarded(own)
		own = cp
		defer free()
		defer debug.SetPanicOnFault(debug.SetPanicOnFault(true))
	}
	data = own
	defer func() {
		if f != nil {
			scrub()
			cl := &counter.File{Meta: map[string]string{}, Count: map[string]uint64{}}
			for k, v := range f.Meta {
				cl.Meta[strings.Clone(k)] = strings.Clone(v)
			}
			for k, v := range f.Count {
				cl.Count[strings.Clone(k)] = v
			}
			f = cl
		}
	}()
	defer func() {
		if r := recover(); r != nil {
			if ul, ok := r.(simrt.UnboundedLoop); ok {
				err = &totalityError{kind: "unbounded-loop", msg: ul.Error()}
				return
			}
			err = &totalityError{kind: "panic", msg: fmt.Sprint(r)}
		}
	}()
	return counter.Parse(name, data)
}

type totalityError struct{ kind, msg string }

func (e *totalityError) Error() string { return e.kind + ": " + e.msg }
