package main

import (
	"golang.org/x/telemetry/internal/verifsim/hlib"
	"golang.org/x/telemetry/internal/verifsim/simrt"
)

func main() {
	simrt.SchedTickLimit = 1_000_000
	hlib.Main("h1", map[string]hlib.Scenario{
		"C03": scenarioC03,
		"C04": scenarioC04,
		"C10": scenarioC10,
		"C05": scenarioC05,
		"C06": scenarioC06,
		"C09": scenarioC09,
		"C02": scenarioC02Counter,
	})
}
