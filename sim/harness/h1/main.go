package main

import (
	"golang.org/x/telemetry/internal/verifsim/hlib"
)

func main() {
	hlib.Main("h1", map[string]hlib.Scenario{
		"C03": scenarioC03,
		"C04": scenarioC04,
	})
}
