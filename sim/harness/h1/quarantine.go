package main

import (
	"strings"

	"golang.org/x/telemetry/internal/verifsim/hlib"
	"golang.org/x/telemetry/internal/verifsim/simrt"
)

// Known-finding windows. A task whose next step lies inside a listed window is
// not runnable until the window clears; everything outside is explored and
// checked in full. The driver passes the windows of the findings listed in
// known_findings.json for the property (flag windows=a+b) or windows=off when it
// replays a stored finding to show that it still reproduces.

// midAdd marks tasks that are between the begin and the return of an increment.
var midAdd = map[*simrt.Task]bool{}

func enterAdd() {
	if t := simrt.Cur(); t != nil {
		midAdd[t] = true
	}
}

func leaveAdd() {
	if t := simrt.Cur(); t != nil {
		delete(midAdd, t)
	}
}

// munmap-with-holders: the task is about to unmap a counter-file mapping while
// another thread of the same process is in the middle of an increment and may
// hold a pointer into that mapping. (internal/counter does not wait for readers
// and lock holders before closing the previous mapping.)
func winMunmapWithHolders(s *simrt.Sim, t *simrt.Task) bool {
	if !strings.HasPrefix(t.Label, "sys:munmap") {
		return false
	}
	for _, u := range s.Tasks {
		if u == t || u.Done || u.Proc != t.Proc || u.Proc.Dead() {
			continue
		}
		// Holders are threads in the middle of an increment, and threads in
		// the middle of open/rotate (invalidateCounters refreshes counters by
		// taking their lock). A blocked thread or one that is itself about to
		// unmap holds no pointer into the mapping.
		mid := midAdd[u] || strings.HasPrefix(u.Name, "timer:")
		if !mid || u.Label == "start" || u.Blocked() || strings.HasPrefix(u.Label, "sys:munmap") {
			continue
		}
		// A thread whose next step is one of file.register's (or of the walk over
		// the list of counters) has not touched the counter's state yet: it holds
		// neither a reader count nor the lock nor a pointer. (Counting it as a
		// holder kept the closing of a mapping away from half-registered
		// counters and so hid finding 12.18 from C03 and C04.)
		if atListStep(u.Label) || strings.HasPrefix(u.Label, "sync f.mu.Lock") {
			// (likewise a thread about to take the file's mutex: it looks its
			// mapping up only once it holds the mutex)
			continue
		}
		return true
	}
	return false
}

func atListStep(label string) bool {
	for _, x := range []string{"c.linked.Load", "c.next.Load", "c.next.CompareAndSwap", "c.next.Store", "f.counters.Load", "f.counters.CompareAndSwap"} {
		if strings.Contains(label, "atomic "+x+" @file.go") {
			return true
		}
	}
	return false
}

var windowFns = map[string]func(s *simrt.Sim, t *simrt.Task) bool{
	"munmap-with-holders": winMunmapWithHolders,
}

var activeWindows = map[string]bool{}

func installQuarantine(w *world, c *hlib.RunCtx) {
	for k := range midAdd {
		delete(midAdd, k)
	}
	for k := range activeWindows {
		delete(activeWindows, k)
	}
	spec := c.Flag("windows")
	if spec == "" || spec == "off" {
		return
	}
	var fns []func(s *simrt.Sim, t *simrt.Task) bool
	for _, name := range strings.Split(spec, "+") {
		fn, ok := windowFns[name]
		if !ok {
			panic("unknown known-finding window " + name)
		}
		fns = append(fns, fn)
		activeWindows[name] = true
	}
	s := w.s
	s.Quarantine = func(t *simrt.Task) bool {
		for _, fn := range fns {
			if fn(s, t) {
				s.Probe("quarantined")
				return true
			}
		}
		return false
	}
}
