// Harness H1: the counter world. One or several simulated processes, each with
// its own counter.file object and its own mapping of the shared counter files,
// threads that increment counters, a clock, the rotation timer, kills, file
// system faults and at-rest corruption.
package main

import (
	"bytes"
	"fmt"
	"math/bits"
	"os"
	"path/filepath"
	"runtime/debug"
	"sort"
	"strings"
	"syscall"
	"time"

	"golang.org/x/telemetry/internal/counter"
	"golang.org/x/telemetry/internal/mmap"
	"golang.org/x/telemetry/internal/telemetry"
	"golang.org/x/telemetry/internal/verifsim/hlib"
	"golang.org/x/telemetry/internal/verifsim/ref/refformat"
	"golang.org/x/telemetry/internal/verifsim/simrt"
)

// ---------------------------------------------------------------- mmap seam

type mapping struct {
	d        *mmap.Data
	path     string
	full     []byte
	poisoned bool
	unmapped bool
	owner    *simrt.Proc
	unmapSeq int // number of mappings made when this one was unmapped
}

var (
	mappings   []*mapping
	mapByData  = map[*mmap.Data]*mapping{}
	realUnmap  bool // this run really unmaps instead of poisoning
	mmapFaults func(path string) error
)

func simMmap(f *os.File) (*mmap.Data, error) {
	c, err := simrt.PreSys("mmap", f.Name())
	if err != nil {
		return nil, err
	}
	d, err := mmap.Mmap(f)
	simrt.PostSys(c, err)
	if err == nil && d != nil && len(d.Data) > 0 {
		m := &mapping{d: d, path: f.Name(), full: d.Data[:cap(d.Data)], owner: simrt.CurProc()}
		if s := simrt.S; s != nil {
			for _, old := range mappings {
				if old.path == m.path && old.owner == m.owner && len(old.full) < len(m.full) {
					s.Probe("remap-after-growth")
					break
				}
			}
		}
		mappings = append(mappings, m)
		mapByData[d] = m
	}
	return d, err
}

func simMunmap(d *mmap.Data) error {
	m := mapByData[d]
	if m == nil {
		return mmap.Munmap(d)
	}
	simrt.Yield("sys:munmap " + filepath.Base(m.path))
	if m.poisoned || m.unmapped {
		// The range is no longer this mapping's: munmap takes away whatever the
		// kernel has placed there since. The simulated kernel reuses a freed range
		// at once (as Linux does for a mapping that fits): the process's newest
		// mapping made after the first unmap is the one that goes.
		if s := simrt.S; s != nil {
			s.Probe("munmap-of-a-range-already-unmapped")
		}
		for i := len(mappings) - 1; i >= m.unmapSeq && i >= 0; i-- {
			v := mappings[i]
			if v == m || v.owner != m.owner || v.poisoned || v.unmapped {
				continue
			}
			if s := simrt.S; s != nil {
				s.Logf("sys", "munmap %s again: the range now holds a later mapping of %s, which goes", filepath.Base(m.path), filepath.Base(v.path))
			}
			if realUnmap {
				v.unmapped = true
				return mmap.Munmap(v.d)
			}
			if err := syscall.Mprotect(v.full, syscall.PROT_NONE); err != nil {
				panic("mprotect: " + err.Error())
			}
			v.poisoned = true
			break
		}
		return nil
	}
	m.unmapSeq = len(mappings)
	if realUnmap {
		m.unmapped = true
		return mmap.Munmap(d)
	}
	// Poisoned unmap: the range stays reserved and every later access faults
	// deterministically instead of hitting whatever is mapped there next.
	if err := syscall.Mprotect(m.full, syscall.PROT_NONE); err != nil {
		panic("mprotect: " + err.Error())
	}
	m.poisoned = true
	if s := simrt.S; s != nil {
		s.Logf("sys", "munmap %s", filepath.Base(m.path))
	}
	return nil
}

func releaseMappings() {
	for _, m := range mappings {
		if !m.unmapped {
			syscall.Munmap(m.full)
		}
	}
	mappings = nil
	mapByData = map[*mmap.Data]*mapping{}
}

func init() {
	counter.VerifSetMmap(simMmap, simMunmap)
}

// ---------------------------------------------------------------- oracle views

// A view is the harness's private read-only mapping of a counter file.
type view struct {
	path string
	f    *os.File
	data []byte
	last []byte
	dec  *refformat.File
	err  error
	gen  int
}

func (v *view) refresh() (changed bool) {
	fi, err := v.f.Stat()
	if err != nil {
		return false
	}
	size := int(fi.Size())
	if size != len(v.data) {
		if v.data != nil {
			syscall.Munmap(v.data)
			v.data = nil
		}
		if size > 0 {
			d, err := syscall.Mmap(int(v.f.Fd()), 0, size, syscall.PROT_READ, syscall.MAP_SHARED)
			if err != nil {
				panic("view mmap: " + err.Error())
			}
			v.data = d
		}
	}
	if bytes.Equal(v.data, v.last) && v.gen > 0 {
		return false
	}
	v.last = append(v.last[:0], v.data...)
	v.dec, v.err = refformat.Decode(v.last)
	v.gen++
	return true
}

func (v *view) close() {
	if v.data != nil {
		syscall.Munmap(v.data)
	}
	v.f.Close()
}

// ---------------------------------------------------------------- world

type proc struct {
	p        *simrt.Proc
	f        *counter.VerifFile
	counters []*counter.Counter
	stacks   []*counter.StackCounter
	foreign  bool // another program whose counter file happens to have the same name: its open must fail and leave the file alone
}

type world struct {
	c       *hlib.RunCtx
	s       *simrt.Sim
	prop    string
	tele    string
	local   string
	views   map[string]*view
	lastFs  int
	procs   []*proc
	begun   map[string]uint64 // raw counter name -> sum of amounts of Add calls begun (low 64 bits)
	begunHi map[string]uint64 // carries out of begun: the saturation family exceeds 2^64
	added   map[string]uint64 // raw counter name -> sum of amounts of Add calls that returned (by live or dead procs)
	// per process accounting for C04
	begunBy  map[*simrt.Proc]map[string]uint64
	doneBy   map[*simrt.Proc]map[string]uint64
	prevVal  map[string]uint64 // path|name -> last decoded value (monotonicity)
	prevLim  map[string]uint32
	prevMeta map[string]string
	viol     *hlib.Violation
	strict   bool             // every snapshot must decode strictly
	bi       *debug.BuildInfo // build info of this world's processes (nil: the default)
	satur    bool
	stepChk  func()
}

var buildInfo = &debug.BuildInfo{
	GoVersion: "go1.23.1",
	Path:      "example.com/prog",
	Main:      debug.Module{Path: "example.com/prog", Version: "v1.2.3"},
}

func newWorld(c *hlib.RunCtx, start time.Time) *world {
	w := &world{c: c, prop: c.Prop, views: map[string]*view{}, begun: map[string]uint64{}, begunHi: map[string]uint64{}, added: map[string]uint64{},
		begunBy: map[*simrt.Proc]map[string]uint64{}, doneBy: map[*simrt.Proc]map[string]uint64{},
		prevVal: map[string]uint64{}, prevLim: map[string]uint32{}, prevMeta: map[string]string{}}
	w.tele = filepath.Join(c.Dir, "tele")
	w.local = filepath.Join(w.tele, "local")
	telemetry.Default = telemetry.NewDir(w.tele)
	counter.VerifResetDefault()
	w.s = simrt.New(c.Tape, c.Dir, start)
	w.s.KeepTrace = true
	w.s.TraceCap = 4000
	if c.Trace {
		w.s.TraceCap = 200000
	}
	c.Sim = w.s
	simrt.Attach(w.s)
	return w
}

func (w *world) close() {
	simrt.Detach()
	for _, v := range w.views {
		v.close()
	}
	releaseMappings()
}

func (w *world) newProc(name string) *proc {
	bi := w.bi
	if bi == nil {
		bi = buildInfo
	}
	p := &proc{p: w.s.NewProc(name, nil), f: counter.VerifNewFile(bi)}
	w.procs = append(w.procs, p)
	w.begunBy[p.p] = map[string]uint64{}
	w.doneBy[p.p] = map[string]uint64{}
	return p
}

func (w *world) fail(inv, format string, args ...any) {
	if w.viol == nil {
		w.viol = hlib.Violationf(w.prop, inv, format, args...)
		w.s.Logf("VIOLATION", "%s: %s", inv, w.viol.Message)
		w.s.Stop = true
	}
}

// add performs one Add on behalf of the running task, with the accounting the
// conservation oracles need.
func (w *world) add(p *proc, c *counter.Counter, n int64) {
	name := c.Name()
	w.begin(name, uint64(n))
	w.begunBy[p.p][name] += uint64(n)
	enterAdd()
	c.Add(n)
	leaveAdd()
	w.added[name] += uint64(n)
	w.doneBy[p.p][name] += uint64(n)
}

// refreshViews re-reads the local directory when the file-system call counter
// moved, and refreshes every view.
func (w *world) refreshViews() {
	if w.s.FsCalls != w.lastFs || len(w.views) == 0 {
		w.lastFs = w.s.FsCalls
		ents, _ := os.ReadDir(w.local)
		for _, e := range ents {
			if !strings.HasSuffix(e.Name(), ".v1.count") {
				continue
			}
			p := filepath.Join(w.local, e.Name())
			if w.views[p] == nil {
				f, err := os.Open(p)
				if err != nil {
					continue
				}
				w.views[p] = &view{path: p, f: f}
			}
		}
	}
	for _, v := range w.views {
		if v.refresh() {
			if w.strict {
				w.checkSnapshot(v)
			}
			if w.c.Flags["parse-snapshots"] == "1" && w.viol == nil {
				w.parseSnapshot(v)
			}
		}
	}
}

// checkSnapshot applies the per-snapshot rules of C04/C10: strict decode,
// limit monotone, values monotone and bounded by the increments begun.
func (w *world) checkSnapshot(v *view) {
	if len(v.last) == 0 {
		return // created, header not yet written
	}
	if v.err != nil {
		if w.fileIncomplete(v) {
			return
		}
		w.fail("well-formed", "%s is not a well-formed counter file: %v", filepath.Base(v.path), v.err)
		return
	}
	d := v.dec
	if d.Limit < w.prevLim[v.path] {
		w.fail("limit-monotone", "%s: allocation limit went from %#x to %#x", filepath.Base(v.path), w.prevLim[v.path], d.Limit)
	}
	w.prevLim[v.path] = d.Limit
	if pm, ok := w.prevMeta[v.path]; ok && pm != d.MetaRaw {
		w.fail("metadata-changed", "%s: the header metadata of an initialised file changed from %q to %q", filepath.Base(v.path), pm, d.MetaRaw)
	}
	w.prevMeta[v.path] = d.MetaRaw
	for name, val := range d.Counts {
		k := v.path + "|" + name
		if val < w.prevVal[k] {
			w.fail("value-monotone", "%s: counter %q decreased from %d to %d", filepath.Base(v.path), short(name), w.prevVal[k], val)
		}
		w.prevVal[k] = val
	}
	for k := range w.prevVal {
		if strings.HasPrefix(k, v.path+"|") {
			name := k[len(v.path)+1:]
			if _, ok := d.Counts[name]; !ok {
				w.fail("record-vanished", "%s: counter %q had a record and has none now", filepath.Base(v.path), short(name))
			}
		}
	}
}

// fileIncomplete reports whether the file is still being initialised (shorter
// than a page, or header not yet written): the well-formedness claim starts
// once the creating open has returned.
func (w *world) fileIncomplete(v *view) bool {
	if len(v.last) < refformat.PageSize {
		return true
	}
	return false
}

func short(s string) string {
	if len(s) > 40 {
		return fmt.Sprintf("%s…(%d bytes)", s[:24], len(s))
	}
	return s
}

// persisted sums the decoded value of every name over all counter files.
func (w *world) persisted() (map[string]uint64, bool) {
	out := map[string]uint64{}
	for _, v := range w.views {
		if len(v.last) < refformat.PageSize {
			continue
		}
		if v.err != nil {
			w.fail("decode", "%s cannot be decoded, persisted values unknown: %v", filepath.Base(v.path), v.err)
			return nil, false
		}
		for n, val := range v.dec.Counts {
			// Sums over several files saturate (the saturation family reaches
			// 2^64-1 in one file and adds more in the next week's file).
			if sum, carry := bits.Add64(out[n], val, 0); carry != 0 {
				out[n] = ^uint64(0)
			} else {
				out[n] = sum
			}
		}
	}
	return out, true
}

// pending sums the in-memory amounts per name over live processes.
func (w *world) pending(includeDead bool) map[string]uint64 {
	out := map[string]uint64{}
	for _, p := range w.procs {
		if p.p.Dead() && !includeDead {
			continue
		}
		for _, c := range p.allCounters() {
			_, _, _, extra, _ := c.VerifState()
			out[c.Name()] += extra
		}
	}
	return out
}

func (p *proc) allCounters() []*counter.Counter {
	cs := append([]*counter.Counter(nil), p.counters...)
	for _, s := range p.stacks {
		cs = append(cs, s.VerifCounters()...)
	}
	return cs
}

func (p *proc) fileOpen() bool {
	_, _, ok := p.f.VerifCurrent()
	return ok && p.f.VerifErr() == nil
}

// taskPanics turns a panic or memory fault in any task into a violation.
func (w *world) taskPanics(t *simrt.Task) {
	if t.Panic == nil {
		return
	}
	if ul, ok := t.Panic.(simrt.UnboundedLoop); ok {
		w.fail("unbounded-loop", "task %s: %v", t.Name, ul)
		return
	}
	msg := fmt.Sprint(t.Panic)
	inv := "panic"
	if strings.Contains(msg, "fault") || strings.Contains(msg, "nil pointer") || strings.Contains(msg, "invalid memory") {
		inv = "memory-fault"
	}
	w.fail(inv, "task %s (proc %d) panicked: %v\n%s", t.Name, t.Proc.ID, msg, trimStack(t.PanicStack))
}

func trimStack(st string) string {
	lines := strings.Split(st, "\n")
	var keep []string
	for _, l := range lines {
		if strings.Contains(l, "internal/counter") || strings.Contains(l, "internal/upload") || strings.Contains(l, "internal/mmap") {
			keep = append(keep, strings.TrimSpace(l))
		}
		if len(keep) >= 12 {
			break
		}
	}
	return strings.Join(keep, "\n")
}

// stateHash folds the abstract state (per counter: readers, locked, havePtr,
// extra>0, ptr nil; per file: size, limit, number of records) for the
// "distinct states reached" measure.
func (w *world) stateHash() {
	h := uint64(14695981039346656037)
	mixin := func(x uint64) { h = (h ^ x) * 1099511628211 }
	for _, p := range w.procs {
		for _, c := range p.allCounters() {
			r, l, hp, ex, pn := c.VerifState()
			var b uint64
			if l {
				b |= 1
			}
			if hp {
				b |= 2
			}
			if ex > 0 {
				b |= 4
			}
			if pn {
				b |= 8
			}
			mixin(uint64(r)<<4 | b)
		}
		if p.p.Dead() {
			mixin(99)
		}
	}
	paths := make([]string, 0, len(w.views))
	for k := range w.views {
		paths = append(paths, k)
	}
	sort.Strings(paths)
	for _, k := range paths {
		v := w.views[k]
		mixin(uint64(len(v.last)))
		if v.dec != nil {
			mixin(uint64(v.dec.Limit))
			mixin(uint64(len(v.dec.Records)))
		}
	}
	for _, t := range w.s.Live() {
		mixin(uint64(len(t.Label)))
	}
	w.c.StateHs[h] = true
}

// finishRun drives the world to quiescence: run until nothing can run; if the
// step cap was hit, run the remaining tasks solo. It reports a "waits forever"
// violation for a deadlock or for a solo task that does not finish.
func (w *world) finishRun(soloBudget int) {
	capped := w.s.Run()
	if w.viol != nil {
		return
	}
	if capped {
		w.c.Inconcl = true
		for _, t := range w.s.Live() {
			if w.viol != nil {
				return
			}
			if !w.s.RunSolo(t, soloBudget) && !t.Blocked() && !t.Done && !(w.s.Quarantine != nil && w.s.Quarantine(t)) {
				// (a task held back by a known-finding window is not one that waits for ever)
				w.fail("waits-forever", "task %s does not finish within %d solo steps (last at %s)", t.Name, soloBudget, t.Label)
				return
			}
		}
		w.s.MaxSteps += 1 << 20
		w.s.Run()
		if w.viol != nil {
			return
		}
	}
	if live := w.s.Live(); len(live) > 0 {
		var why []string
		quarantined := false
		for _, t := range live {
			why = append(why, fmt.Sprintf("%s@%s", t.Name, t.Label))
			if !t.Blocked() && w.s.Quarantine != nil && w.s.Quarantine(t) {
				quarantined = true
			}
		}
		if quarantined {
			// Cannot happen by construction of the windows; it is a harness
			// problem, never a finding.
			panic("quarantine window never cleared: " + strings.Join(why, ", "))
		}
		w.fail("waits-forever", "deadlock: every remaining task is blocked: %s", strings.Join(why, ", "))
	}
}

// begin accounts for an increment that is about to start.
func (w *world) begin(name string, n uint64) {
	lo, carry := bits.Add64(w.begun[name], n, 0)
	w.begun[name] = lo
	w.begunHi[name] += carry
}

// exceeds reports whether a+b > the 128-bit total begun for name.
func (w *world) exceeds(name string, a, b uint64) bool {
	if a == ^uint64(0) {
		// persisted sum saturated: only claimable if at least that much was begun
		return w.begunHi[name] == 0 && w.begun[name] != ^uint64(0)
	}
	lo, carry := bits.Add64(a, b, 0)
	hi := w.begunHi[name]
	if carry != hi {
		return carry > hi
	}
	return lo > w.begun[name]
}
