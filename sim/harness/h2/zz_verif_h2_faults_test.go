package main

// C05, upload side: a telemetry directory with several weeks of counter files
// (some damaged at rest) and left-over reports; one upload.Run. The fault-free
// execution is recorded, then the same seeded workload is re-executed once per
// (file-system call index, errno or short write), with persistent states, with
// server failures, and for a sample of pairs. Oracle: Run returns normally, no
// panic escapes, the run ends within the step budget, and no report that exists
// afterwards holds a value above the true sum of its week's files.

import (
	"bytes"
	"encoding/binary"
	"encoding/json"
	"fmt"
	"os"
	"path/filepath"
	"sort"
	"strings"
	"syscall"
	"time"
	"unicode/utf8"

	"crypto/rand"

	"golang.org/x/telemetry/internal/telemetry"
	"golang.org/x/telemetry/internal/upload"
	"golang.org/x/telemetry/internal/verifsim/hlib"
	"golang.org/x/telemetry/internal/verifsim/mgen"
	"golang.org/x/telemetry/internal/verifsim/ref/refcal"
	"golang.org/x/telemetry/internal/verifsim/ref/refformat"
	"golang.org/x/telemetry/internal/verifsim/ref/refreport"
	"golang.org/x/telemetry/internal/verifsim/simrt"
)

var upErrnos = []syscall.Errno{syscall.ENOENT, syscall.EACCES, syscall.EROFS, syscall.ENOSPC, syscall.EIO, syscall.EMFILE, syscall.EINTR}

type upPlan struct {
	n          int
	a, b       [2]int // call index, kind
	persistent int
}

func drawUpPlan(t *simrt.Tape) upPlan {
	var p upPlan
	p.n = t.Fixed(3, 0)
	p.a = [2]int{t.Fixed(1<<12, 0), t.Fixed(len(upErrnos)+1, 0)}
	p.b = [2]int{t.Fixed(1<<12, 0), t.Fixed(len(upErrnos)+1, 0)}
	p.persistent = t.Fixed(4, 0)
	return p
}

func (p upPlan) install(s *simrt.Sim) {
	slots := [][2]int{}
	if p.n >= 1 {
		slots = append(slots, p.a)
	}
	if p.n >= 2 {
		slots = append(slots, p.b)
	}
	s.FaultFn = func(c *simrt.FsCall) error {
		switch p.persistent {
		case 1:
			if c.Mutating || c.Op == "create-excl" || c.Op == "createtemp" || c.Op == "link" {
				return syscall.EROFS
			}
		case 2:
			return syscall.EACCES
		case 3:
			if c.Op == "readfile" {
				return syscall.EIO
			}
		}
		for _, sl := range slots {
			if sl[0] == c.Idx && sl[1] < len(upErrnos) {
				return upErrnos[sl[1]]
			}
		}
		return nil
	}
	s.ShortFn = func(c *simrt.FsCall, n int) int {
		for _, sl := range slots {
			if sl[0] == c.Idx && sl[1] == len(upErrnos) {
				return n / 2
			}
		}
		return n
	}
}

func upExec(c *hlib.RunCtx, t *simrt.Tape) (*hlib.Violation, int) {
	save := c.Tape
	c.Tape = t
	defer func() { c.Tape = save }()
	os.RemoveAll(c.Dir)
	os.MkdirAll(c.Dir, 0777)
	resetWeekMemory()
	plan := drawUpPlan(t)
	day := refcal.DaysFromCivil(2024, 1, 1) + t.Draw(800)
	start := time.Unix(int64(day)*86400, 0).UTC().Add(time.Duration(t.Draw(86400)) * time.Second)
	s := simrt.New(t, c.Dir, start)
	s.KeepTrace = true
	s.TraceCap = 4000
	if c.Trace {
		s.TraceCap = 200000
	}
	s.PermuteMaps = true
	c.Sim = s
	simrt.Attach(s)
	defer simrt.Detach()
	m := &machine{c: c, s: s, t: t, prop: c.Prop, tele: filepath.Join(c.Dir, "tele"), markerAtSend: map[int]bool{},
		cfgByTask: map[*simrt.Task]*cfgVersion{}, dlFail: map[*simrt.Task]bool{}, xByTask: map[*simrt.Task][]float64{},
		acked: map[string][]ack{}, stored: map[string]bool{}, verdict: map[string]int{}, uploaderOf: map[*simrt.Task]int{},
		reportMaker: map[string]*simrt.Task{}, allMakers: map[string][]*simrt.Task{}, localMaker: map[string]*simrt.Task{}, fatalStatus: map[*simrt.Task]map[string]int{}}
	m.loc = filepath.Join(m.tele, "local")
	m.upl = filepath.Join(m.tele, "upload")
	telemetry.Default = telemetry.NewDir(m.tele)
	m.xs = []float64{mgen.Dyadic(1 << 18), mgen.Dyadic(1 << 19), mgen.Dyadic(3 << 18)}
	saveReader := rand.Reader
	rand.Reader = xReader{m}
	defer func() { rand.Reader = saveReader }()
	m.cfgs = append(m.cfgs, mgen.GenConfig(m.t, "v0.1.0"))
	plainLeftover := false
	cfgFails := t.Bool(1, 8)
	mgen.ServeConfig(s, c.Dir, nil, func(version string, env []string) (*telemetry.UploadConfig, string, error) {
		simrt.Yield("config:download")
		if cfgFails {
			return nil, "", fmt.Errorf("simulated config download failure")
		}
		cur := m.cfgs[0]
		m.cfgByTask[simrt.Cur()] = cur
		js, _ := json.Marshal(cur.Real)
		var cp telemetry.UploadConfig
		json.Unmarshal(js, &cp)
		return &cp, cur.Version, nil
	})

	// the directory as found
	dirKind := t.Biased(5, 3, 4) // 0 normal, 1 no telemetry dir, 2 local is a file, 3 upload is a file, 4 debug dir present
	switch dirKind {
	case 0, 3, 4:
		os.MkdirAll(m.loc, 0777)
		os.WriteFile(filepath.Join(m.loc, "weekends"), []byte("3\n"), 0666)
		m.setModeDirect([]string{"on", "on", "local"}[t.Draw(3)], start.Add(-40*24*time.Hour), t.Bool(1, 3))
		if t.Bool(1, 5) {
			// a mode file cut short or otherwise odd
			odd := []string{"on 2023-0", "on ", "on 2", "on 2024-01-0", "on 2024-01-01 extra", "\xff\xfe on", " ", "on\n2024-01-01"}
			os.WriteFile(filepath.Join(m.tele, "mode"), []byte(odd[t.Draw(len(odd))]), 0666)
			s.Probe("odd-mode-file")
		}
		n := 1 + t.Draw(5)
		for i := 0; i < n; i++ {
			mgen.WriteCounterFile(m.t, m.s, m.loc, start.Add(-time.Duration(2+t.Draw(25))*24*time.Hour), 1+t.Draw(7), t.Biased(4, 3, 5))
		}
		// damaged files at rest
		if t.Bool(1, 2) {
			ents, _ := os.ReadDir(m.loc)
			for _, e := range ents {
				if strings.HasSuffix(e.Name(), ".v1.count") && t.Bool(1, 3) {
					p := filepath.Join(m.loc, e.Name())
					data, _ := os.ReadFile(p)
					damageBytes(t, data)
					os.WriteFile(p, data, 0666)
				}
			}
		}
		// left-over reports
		if t.Bool(1, 3) {
			w := refcal.Date(day - 3 - t.Draw(20))
			os.WriteFile(filepath.Join(m.loc, w+".json"), []byte([]string{"", "{", `{"Week":"` + w + `","X":0.25,"Config":"v0.1.0"}`, "garbage"}[t.Draw(4)]), 0666)
		}
		// files whose names only nearly match the data-file patterns
		if t.Bool(1, 3) {
			strays := []string{"x.json", ".json", "local..json", "local.x.json", "2024.json", "0000000000.json", "xxxx-xx-xx.json", "2024-13-45.json",
				"local.2024-13-45.json", ".v1.count", "x.v1.count", "a-b.v1.count", "a@b@c.v1.count", "weekends", "upload.token", "json"}
			w := refcal.Date(day - 3 - t.Draw(20))
			bodies := []string{"", "{}", `{"Week":"` + w + `","X":0.25,"Config":"v0.1.0"}`, "garbage", "null", "[]"}
			for _, n := range strays {
				if t.Bool(1, 4) {
					os.WriteFile(filepath.Join(m.loc, n), []byte(bodies[t.Draw(len(bodies))]), 0666)
					s.Probe("stray-file")
				}
			}
		}
		// what a killed earlier run may have left behind
		if dirKind != 3 && t.Bool(1, 4) {
			w := refcal.Date(day - 3 - t.Draw(20))
			rep := `{"Week":"` + w + `","X":0.25,"Config":"v0.1.0"}`
			os.MkdirAll(m.upl, 0777)
			switch t.Draw(5) {
			case 0: // a lock nobody holds
				os.WriteFile(filepath.Join(m.loc, w+".json"), []byte(rep), 0666)
				os.WriteFile(filepath.Join(m.upl, w+".json.lock"), nil, 0666)
			case 1: // recorded as uploaded, local copy not yet removed
				os.WriteFile(filepath.Join(m.loc, w+".json"), []byte(rep), 0666)
				os.WriteFile(filepath.Join(m.upl, w+".json"), []byte(rep), 0666)
			case 2: // an empty uploaded marker
				os.WriteFile(filepath.Join(m.loc, w+".json"), []byte(rep), 0666)
				os.WriteFile(filepath.Join(m.upl, w+".json"), nil, 0666)
			case 3: // staging files of the report writer
				os.WriteFile(filepath.Join(m.loc, "local."+w+".json.tmp123"), []byte("{"), 0666)
				os.WriteFile(filepath.Join(m.loc, w+".json.tmp456"), []byte(rep[:10]), 0666)
				plainLeftover = t.Bool(1, 2)
			case 4: // the debug directory's name taken by a plain file
				os.WriteFile(filepath.Join(m.tele, "debug"), []byte("x"), 0666)
			}
			s.Probe("left-by-a-killed-run")
		}
		if dirKind == 3 {
			os.WriteFile(m.upl, []byte("not a directory"), 0666)
		}
		if dirKind == 4 {
			os.MkdirAll(filepath.Join(m.tele, "debug"), 0777)
		}
	case 2:
		os.MkdirAll(m.tele, 0777)
		os.WriteFile(m.loc, []byte("not a directory"), 0666)
	}
	m.serverPolicy = t.Biased(4, 1, 2)
	m.entropyFails = c.Prop == "C05" && t.Bool(1, 10)
	s.Transport = m.transport
	plan.install(s)
	m.roundMode, m.roundAsof, _, _ = parseMode(filepath.Join(m.tele, "mode"))
	m.roundStart = s.NowT()
	m.snapshotFiles()
	if plainLeftover {
		// ... under the plainest names a writer might choose, for a week of this run's files
		var weeks []string
		for _, mf := range m.roundFiles {
			if mf.parseable {
				weeks = append(weeks, mf.week)
			}
		}
		sort.Strings(weeks)
		if len(weeks) > 0 {
			w := weeks[t.Draw(len(weeks))]
			os.WriteFile(filepath.Join(m.loc, "local."+w+".json.tmp"), []byte("{"), 0666)
			os.WriteFile(filepath.Join(m.loc, w+".json.tmp"), []byte(`{"Week":"`), 0666)
			s.Probe("plain-staging-leftover")
		}
	}
	hadBefore := reportWeeks(m.loc)
	for w := range reportWeeks(m.upl) {
		hadBefore[w] = true
	}
	var runErr error
	p := s.NewProc("uploader", nil)
	tk := s.Spawn(p, "uploader", func() {
		runErr = upload.Run(upload.RunConfig{TelemetryDir: m.tele, UploadURL: uploadURL})
	})
	m.uploaderOf[tk] = 0
	s.MaxSteps = 100000
	capped := s.Run()
	_ = runErr
	c.Sample = map[string]any{"plan": fmt.Sprintf("n=%d a=%v b=%v persistent=%d", plan.n, plan.a, plan.b, plan.persistent), "dir_kind": dirKind, "files": len(m.roundFiles), "server_policy": m.serverPolicy, "calls": s.FsCalls}
	switch {
	case tk.Panic != nil:
		m.fail("panic", "a panic escaped upload.Run: %v\n%s", tk.Panic, tk.PanicStack)
	case capped || !tk.Done:
		m.fail("waits-forever", "upload.Run did not return within the step budget (at %s)", tk.Label)
	case s.LoopOverrun != "":
		m.fail("unbounded-loop", "a loop at %s ran %d iterations without reaching a system call: the uploader does not return in a bounded number of steps (it was stopped by the simulator's loop budget)", s.LoopOverrun, 10_000_000)
	}
	if m.viol == nil {
		m.checkNoInflation()
	}
	for k, n := range s.FaultsHit {
		c.Notes["fault "+k] += n
	}
	if c.Prop == "C07" && m.viol == nil {
		// C07 after a disk failure: whatever failed, a counter file that is gone
		// belongs to a week that has a report.
		// (A report that was there when the file went counts even if it is gone
		// by the end of the run: the server may have refused it.)
		var names []string
		for p := range m.roundFiles {
			names = append(names, p)
		}
		sort.Strings(names)
		reportAt := map[string]int{} // week -> index of the first call that put a report in place
		removedAt := map[string]int{}
		for _, fc := range s.CallLog {
			if fc.Err != nil {
				continue
			}
			dst := fc.Path
			if fc.Op == "rename" && fc.Path2 != "" {
				dst = fc.Path2
			}
			if w, kind := weekOfReportPath(dst); kind != "" && !strings.Contains(filepath.Base(dst), ".tmp") && (fc.Op == "link" || fc.Op == "rename" || fc.Op == "create-excl" || fc.Op == "open-create" || fc.Op == "writefile-open" || fc.Op == "create" || fc.Op == "open-trunc") {
				if _, ok := reportAt[w]; !ok {
					reportAt[w] = fc.Idx
				}
			}
			if fc.Op == "remove" && strings.HasSuffix(fc.Path, ".v1.count") {
				removedAt[filepath.Join(c.Dir, fc.Path)] = fc.Idx
			}
		}
		// ... and a report that is in place is a whole one: a file cut short by the
		// failure must not pass for the week's report (the counter files are gone,
		// nothing could rebuild it), and nothing cut short is sent.
		for _, p := range names {
			mf := m.roundFiles[p]
			if exists(p) || !mf.parseable || hadBefore[mf.week] || m.viol != nil {
				continue
			}
			for _, rp := range []string{filepath.Join(m.loc, "local."+mf.week+".json"), filepath.Join(m.loc, mf.week+".json")} {
				data, err := os.ReadFile(rp)
				if err != nil {
					continue
				}
				var top map[string]any
				if json.Unmarshal(data, &top) != nil || top["Week"] != mf.week {
					m.fail("partial-report-in-place", "after a failed file-system call %s was removed and %s (%d bytes) is not a complete report of week %s", mf.base, s.Rel(rp), len(data), mf.week)
				}
			}
		}
		for _, r := range s.Requests {
			week := r.URL[strings.LastIndex(r.URL, "/")+1:]
			if _, built := reportAt[week]; !built || hadBefore[week] {
				continue // a report found in the directory is sent as it is
			}
			var top map[string]any
			if json.Unmarshal(r.Body, &top) != nil && m.viol == nil {
				m.fail("body-not-a-report", "after a failed file-system call the report built for week %s is sent as %d bytes that are not a JSON report", week, len(r.Body))
			}
		}
		for _, p := range names {
			mf := m.roundFiles[p]
			if exists(p) || !mf.parseable || m.reportExists(mf.week) || hadBefore[mf.week] || m.viol != nil {
				// (a damaged file whose week the model cannot tell may still be readable for the
				// library, which is more lenient in places: which report it went into is not judged)
				continue
			}
			if at, ok := reportAt[mf.week]; ok && at < removedAt[p] {
				continue
			}
			m.fail("removed-before-report", "after a failed file-system call %s is gone although no report for week %s existed when it was removed", mf.base, mf.week)
		}
		return m.viol, s.FsCalls
	}
	if c.Prop == "C08" && m.viol == nil {
		// C08 after a disk failure: two more runs on a healthy disk. Whatever the
		// failed call left behind, a week the server acknowledged and that is
		// recorded as uploaded is not sent again.
		calls := s.FsCalls
		s.FaultFn, s.ShortFn = nil, nil
		for i := 0; i < 2 && m.viol == nil; i++ {
			p := s.NewProc(fmt.Sprintf("uploader-later-%d", i), nil)
			tk := s.Spawn(p, p.Name, func() { upload.Run(upload.RunConfig{TelemetryDir: m.tele, UploadURL: uploadURL}) })
			m.uploaderOf[tk] = 1 + i
			s.MaxSteps = s.Steps + 100000
			if s.Run() || !tk.Done {
				m.fail("waits-forever", "a later upload.Run did not return within the step budget")
			}
		}
		acked := map[string]int{}
		for _, r := range s.Requests {
			week := r.URL[strings.LastIndex(r.URL, "/")+1:]
			if prev, ok := acked[week]; ok && m.markerAtSend[r.Seq] && m.viol == nil {
				m.fail("resent-after-upload", "after a failed file-system call: week %s was acknowledged (request #%d) and upload/%s.json existed when request #%d sent it again", week, prev, week, r.Seq)
			}
			if r.Status == 200 {
				if _, ok := acked[week]; !ok {
					acked[week] = r.Seq
				}
			}
		}
		return m.viol, calls
	}
	return m.viol, s.FsCalls
}

// damageBytes flips structure in a counter file (links, lengths, header).
func damageBytes(t *simrt.Tape, data []byte) {
	if len(data) < 4096 {
		return
	}
	if h := binary.LittleEndian.Uint32(data[28:]); int64(h)+4+4*512 > int64(len(data)) {
		t.Draw(5)
		return // already unreadable
	}
	switch t.Draw(5) {
	case 0:
		for i := 0; i < 6; i++ {
			data[t.Draw(len(data))] = byte(t.Draw(256))
		}
	case 1:
		binary.LittleEndian.PutUint32(data[28:], uint32([]int{0, 8, 31, 1 << 20}[t.Draw(4)]))
	case 2: // make a record point to itself: the first of a non-empty bucket, by preference one whose name is a stack with a ditto mark
		h := binary.LittleEndian.Uint32(data[28:])
		pick := ^uint32(0)
		for b := uint32(0); b < 512; b++ {
			off := binary.LittleEndian.Uint32(data[h+4+4*b:])
			if off != 0 && int(off)+16 < len(data) {
				if pick == ^uint32(0) {
					pick = b
				}
				nl := binary.LittleEndian.Uint32(data[off+8:]) & 0xffffff
				if int(off)+16+int(nl) <= len(data) && bytes.Contains(data[off+16:off+16+nl], []byte("\n\"")) {
					pick = b
					break
				}
			}
		}
		for b := pick; b < 512; b++ {
			off := binary.LittleEndian.Uint32(data[h+4+4*b:])
			if off != 0 && int(off)+16 < len(data) {
				binary.LittleEndian.PutUint32(data[off+12:], off)
				if t.Bool(1, 2) {
					binary.LittleEndian.PutUint64(data[off:], 0) // ... and holds zero
				}
				break
			}
		}
	case 3:
		h := binary.LittleEndian.Uint32(data[28:])
		binary.LittleEndian.PutUint32(data[h+4+4*uint32(t.Draw(512)):], uint32([]int{40, 1 << 30, 16380}[t.Draw(3)]))
	case 4:
		copy(data[40:], "TimeEnd: garbage\n")
	}
}

// checkNoInflation: whatever failed, no report holds a value above the true
// sum of the week's files (failures drop counts, they never change others).
func (m *machine) checkNoInflation() {
	for _, mf := range m.roundFiles {
		if !mf.parseable {
			// A file that does not begin with the format's first line is no counter
			// file for any reader: it cannot have contributed to a report, the other
			// files are judged. Any other file the model cannot read (damaged, or
			// without a usable end) may still be read by the library, more lenient in
			// places than the model's decoders, and yield counts: totality only.
			if !bytes.HasPrefix(mf.data, []byte(refformat.Prefix)) {
				continue
			}
			return
		}
		namesOK := true
		if mf.dec != nil {
			for n := range mf.dec.Counts {
				if !utf8.ValidString(n) {
					namesOK = false // (likewise a damaged name: the report's JSON replaces the byte, the key no longer compares equal)
				}
			}
		}
		if !namesOK {
			return
		}
		if mf.dec != nil && !utf8.ValidString(mf.dec.MetaRaw) {
			// damage turned a metadata byte into invalid UTF-8: the report's JSON
			// replaces it, so its program identity no longer compares equal
			return
		}
	}
	ents, _ := os.ReadDir(m.loc)
	for _, e := range ents {
		n := e.Name()
		if !strings.HasPrefix(n, "local.") || !strings.HasSuffix(n, ".json") {
			continue
		}
		week := strings.TrimSuffix(strings.TrimPrefix(n, "local."), ".json")
		data, err := os.ReadFile(filepath.Join(m.loc, n))
		if err != nil {
			continue
		}
		var rep struct {
			Programs []struct {
				Program, Version, GoVersion, GOOS, GOARCH string
				Counters, Stacks                          map[string]int64
			}
		}
		if err := json.Unmarshal(data, &rep); err != nil {
			continue // a short write may leave a partial file only if it was not linked; tolerated here
		}
		var files []*refreport.CountFile
		for _, mf := range m.roundFiles {
			if mf.parseable && mf.week == week {
				files = append(files, &refreport.CountFile{Path: mf.path, Meta: mf.dec.Meta, Counts: mf.dec.Counts})
			}
		}
		want := refreport.Aggregate(files)
		for _, gp := range rep.Programs {
			b := refreport.Build{Program: gp.Program, Version: gp.Version, GoVersion: gp.GoVersion, GOOS: gp.GOOS, GOARCH: gp.GOARCH}
			var wp *refreport.ProgramData
			for _, x := range want.Programs {
				if x.Build == b {
					wp = x
				}
			}
			for k, v := range gp.Counters {
				if wp == nil || v > wp.Counters[k] {
					m.fail("inflated-count", "after a failed call the local report for week %s holds %s=%d for %v, the files sum to less", week, k, v, b)
					return
				}
			}
			for k, v := range gp.Stacks {
				if wp == nil || v > wp.Stacks[k] {
					m.fail("inflated-count", "after a failed call the local report for week %s holds stack %q=%d for %v, the files sum to less", week, k, v, b)
					return
				}
			}
		}
	}
}

func scenarioUploadFaults(c *hlib.RunCtx) *hlib.Violation {
	if c.Tape.Replay {
		v, _ := upExec(c, c.Tape)
		return v
	}
	gen := c.Tape
	v, ncalls := upExec(c, gen)
	c.Note("executions")
	if v != nil {
		return v
	}
	base := append([]uint32(nil), gen.Vals...)
	thorough := c.Flag("tier") == "thorough"
	try := func(n int, a, b [2]int, persistent int) *hlib.Violation {
		vals := append([]uint32(nil), base...)
		vals[0] = uint32(n)
		vals[1], vals[2] = uint32(a[0]), uint32(a[1])
		vals[3], vals[4] = uint32(b[0]), uint32(b[1])
		vals[5] = uint32(persistent)
		v, _ := upExec(c, simrt.NewReplayTape(vals))
		c.Note("executions")
		if v != nil {
			gen.Vals = vals
		}
		return v
	}
	if ncalls > 1<<12 {
		ncalls = 1 << 12
	}
	kinds := len(upErrnos) + 1
	for i := 0; i < ncalls; i++ {
		for k := 0; k < kinds; k++ {
			if !thorough && k != len(upErrnos) && (i+k)%3 != 0 {
				continue
			}
			if v := try(1, [2]int{i, k}, [2]int{}, 0); v != nil {
				return v
			}
			c.Note("single-faults")
		}
	}
	for p := 1; p <= 3; p++ {
		if v := try(0, [2]int{}, [2]int{}, p); v != nil {
			return v
		}
		c.Note("persistent-faults")
	}
	r := simrt.NewRand(uint64(len(base))*104729 + uint64(ncalls))
	npairs := 15
	if thorough {
		npairs = 120
	}
	for n := 0; n < npairs && ncalls >= 2; n++ {
		i, j := r.Intn(ncalls), r.Intn(ncalls)
		if i == j {
			continue
		}
		if v := try(2, [2]int{i, r.Intn(kinds)}, [2]int{j, r.Intn(kinds)}, 0); v != nil {
			return v
		}
		c.Note("pair-faults")
	}
	c.Note("nontrivial")
	return nil
}
