package main

import (
	"bytes"
	"encoding/json"
	"fmt"
	"os"
	"path/filepath"
	"sort"
	"strings"
	"syscall"
	"time"

	"golang.org/x/telemetry/internal/telemetry"
	"golang.org/x/telemetry/internal/upload"
	"golang.org/x/telemetry/internal/verifsim/ref/refcal"
	"golang.org/x/telemetry/internal/verifsim/ref/refreport"
	"golang.org/x/telemetry/internal/verifsim/simrt"
)

// ---------------------------------------------------------------- server

// transport decides the fate of one client send event.
func (m *machine) transport(r *simrt.Request) (int, error) {
	week := r.URL[strings.LastIndex(r.URL, "/")+1:]
	if m.markerAtSend != nil {
		m.markerAtSend[r.Seq] = exists(filepath.Join(m.upl, week+".json"))
	}
	fate := 0
	switch m.serverPolicy {
	case 0:
		fate = 0
	case 1:
		fate = m.t.Biased(6, 1, 2)
	case 2:
		fate = m.t.Biased(6, 1, 4)
	case 3:
		fate = m.t.Biased(3, 2, 3) * 2 // 200, 500, lost answer
	}
	// The server is adversarial about availability, not about validity: its
	// verdict on a report is a function of the report. A body it has rejected is
	// rejected again, a body it has accepted is never rejected later.
	bodyKey := week + "\x00" + string(r.Body)
	switch m.verdict[bodyKey] {
	case 400:
		fate = 1
	case 200:
		if fate == 1 {
			fate = 0
		}
	}
	if fate == 1 {
		m.verdict[bodyKey] = 400
	} else if fate == 0 || fate == 4 || fate == 5 {
		m.verdict[bodyKey] = 200
	}
	accept := func() {
		m.acked[week] = append(m.acked[week], ack{week: week, body: string(r.Body), seq: r.Seq})
		r.Delivered++
	}
	m.s.FaultsHit[[]string{"server:200", "server:4xx", "server:5xx", "server:no-answer", "server:processed-answer-lost", "server:delivered-twice"}[fate]]++
	switch fate {
	case 0:
		accept()
		r.Note = "200"
		return 200, nil
	case 1:
		// any client-error code is a client error, any server-error code a server error
		code := []int{400, 401, 403, 404, 408, 409, 413, 422, 429, 451, 499}[m.t.Biased(11, 1, 2)]
		r.Note = fmt.Sprint(code)
		return code, nil
	case 2:
		code := []int{500, 501, 502, 503, 504, 507, 511, 599}[m.t.Biased(8, 1, 2)]
		r.Note = fmt.Sprint(code)
		return code, nil
	case 3:
		r.Note = "no answer"
		return 0, syscall.ECONNREFUSED
	case 4: // processed, answer lost
		accept()
		r.Note = "processed, answer lost"
		return 0, syscall.ECONNRESET
	case 5: // delivered twice by the transport, answered once
		accept()
		accept()
		r.Note = "200 (delivered twice)"
		return 200, nil
	}
	return 200, nil
}

func weekOfReportPath(rel string) (week string, kind string) {
	base := filepath.Base(rel)
	if !strings.HasSuffix(base, ".json") {
		return "", ""
	}
	w := strings.TrimSuffix(base, ".json")
	dir := filepath.Base(filepath.Dir(rel))
	switch {
	case dir == "upload":
		return w, "uploaded"
	case strings.HasPrefix(w, "local."):
		return strings.TrimPrefix(w, "local."), "local"
	default:
		return w, "ready"
	}
}

func exists(p string) bool { _, err := os.Stat(p); return err == nil }

func (m *machine) reportExists(week string) bool {
	return exists(filepath.Join(m.loc, "local."+week+".json")) || exists(filepath.Join(m.loc, week+".json")) || exists(filepath.Join(m.upl, week+".json"))
}

// weekAgg remembers, for a week, the aggregate of its files when the report was created.
// Per-run memory of the circumstances in which a week's report was created
// (keyed by run directory + week; reset by resetWeekMemory at scenario start).
var weekAgg = map[string]*refreport.Week{}
var weekEarliest = map[string]time.Time{}
var weekLatestEnd = map[string]time.Time{}
var weekCreatedAt = map[string]time.Time{}
var weekCreatedMode = map[string]string{}
var weekCreatedAsof = map[string]time.Time{}

func resetWeekMemory() {
	weekAgg = map[string]*refreport.Week{}
	weekEarliest = map[string]time.Time{}
	weekLatestEnd = map[string]time.Time{}
	weekCreatedAt = map[string]time.Time{}
	weekCreatedMode = map[string]string{}
	weekCreatedAsof = map[string]time.Time{}
}

func (m *machine) isUploader(t *simrt.Task) bool { _, ok := m.uploaderOf[t]; return ok }

// scanCalls examines the file-system calls made since the last scan.
func (m *machine) scanCalls() {
	s := m.s
	for ; m.seenCalls < len(s.CallLog); m.seenCalls++ {
		fc := s.CallLog[m.seenCalls]
		if fc.Task == nil || !m.isUploader(fc.Task) {
			continue
		}
		abs := filepath.Join(m.c.Dir, fc.Path)
		isCount := strings.HasSuffix(fc.Path, ".v1.count")
		week, kind := weekOfReportPath(fc.Path)
		if fc.Op == "rename" && fc.Err == nil && fc.Path2 != "" {
			// a rename makes (or replaces) the destination
			week, kind = weekOfReportPath(fc.Path2)
		}
		if m.roundMode == "off" && fc.Mutating && fc.Err == nil && (isCount || kind != "") {
			m.fail("off-mode-write", "mode is off but the uploader performed %s on %s", fc.Op, fc.Path)
			return
		}
		creates := fc.Err == nil && (fc.Op == "create-excl" || fc.Op == "link" || fc.Op == "open-create" || fc.Op == "writefile-open" || fc.Op == "rename" || fc.Op == "create" || fc.Op == "open-trunc")
		if creates && (kind == "ready" || kind == "local") && m.reportedAtStart[week] && !strings.Contains(filepath.Base(fc.Path), ".tmp") {
			m.fail("second-report", "week %s had a report when the round started, yet uploader task %s created %s", week, fc.Task.Name, fc.Path)
			return
		}
		if creates && kind == "ready" {
			// A successful exclusive creation means the name did not exist: the
			// latest creator is the run that built the report now in place.
			if true {
				m.reportMaker[week] = fc.Task
				m.allMakers[week] = append(m.allMakers[week], fc.Task)
				var files []*refreport.CountFile
				var earliest, latestEnd time.Time // (latestEnd: the instant the week ended, by its files' own records)
				for _, mf := range m.roundFiles {
					if mf.parseable && mf.week == week && mf.end.Before(m.roundStart) {
						files = append(files, &refreport.CountFile{Path: mf.path, Meta: mf.dec.Meta, Counts: mf.dec.Counts})
						// ("all of it was collected strictly after that date": a file without a count collected nothing)
						if !mf.empty && (earliest.IsZero() || mf.begin.Before(earliest)) {
							earliest = mf.begin
						}
						if mf.end.After(latestEnd) {
							latestEnd = mf.end
						}
					}
				}
				key := fmt.Sprintf("%s#%d", week, fc.Task.ID)
				weekAgg[key] = refreport.Aggregate(files)
				weekEarliest[key] = earliest
				weekLatestEnd[key] = latestEnd
				weekCreatedAt[key] = m.roundStart
				weekCreatedMode[key] = m.roundMode
				weekCreatedAsof[key] = m.roundAsof
				// C02's "made uploadable only if" clauses, judged when the week is made
				// uploadable (whether or not the report is ever sent)
				dst := fc.Path
				if fc.Op == "rename" && fc.Path2 != "" {
					dst = fc.Path2
				}
				var made struct {
					X      float64
					Config string
				}
				if data, err := os.ReadFile(filepath.Join(m.c.Dir, dst)); err == nil && validWeek(week) && json.Unmarshal(data, &made) == nil {
					wd := time.Unix(int64(refcal.DaysFromCivil(atoi(week[0:4]), atoi(week[5:7]), atoi(week[8:10])))*86400, 0).UTC()
					var cfg *cfgVersion
					for _, cv := range m.cfgs {
						if cv.Version == made.Config {
							cfg = cv
						}
					}
					switch {
					case m.roundMode != "on":
						m.fail("uploadable-without-consent", "week %s was made uploadable (%s created) while the mode file says %q", week, dst, m.roundMode)
					case m.roundStart.Sub(wd) > 21*24*time.Hour && (latestEnd.IsZero() || m.roundStart.Sub(latestEnd) > 21*24*time.Hour):
						m.fail("too-old-uploaded", "week %s was made uploadable by a run at %s, more than 21 days after it ended", week, m.roundStart.Format(time.RFC3339))
					case cfg != nil && cfg.Ref.SampleRate > 0 && made.X > cfg.Ref.SampleRate:
						m.fail("sample-rate", "week %s was made uploadable with X=%v above the sample rate %v", week, made.X, cfg.Ref.SampleRate)
					case !m.roundAsof.IsZero() && !earliest.IsZero() && !m.roundAsof.Before(earliest):
						m.fail("data-before-optin", "week %s was made uploadable although it contains data from %s, not strictly after the opt-in date %s", week, earliest.Format("2006-01-02"), m.roundAsof.Format("2006-01-02"))
					}
					if m.viol != nil {
						return
					}
					m.s.Probe("uploadable-judged-at-creation")
				}
			}
		}
		if creates && kind == "local" {
			m.localMaker[week] = fc.Task
		}
		if isCount && fc.Mutating && fc.Err == nil {
			mf := m.roundFiles[abs]
			switch {
			case mf == nil:
				// a file that appeared during the round cannot exist in this world
				m.fail("touched-unknown-file", "uploader performed %s on %s which was not present at the start of the round", fc.Op, fc.Path)
			case !mf.parseable:
				m.fail("touched-unreadable-file", "uploader performed %s on the unreadable counter file %s", fc.Op, fc.Path)
			case !mf.end.Before(m.roundStart):
				m.fail("touched-active-file", "uploader performed %s on %s whose recorded end %s is not before the start time %s", fc.Op, fc.Path, mf.end.Format(time.RFC3339), m.roundStart.Format(time.RFC3339))
			case fc.Op == "remove" && !m.reportExists(mf.week):
				m.fail("removed-before-report", "uploader removed %s although no report for week %s exists at that instant", fc.Path, mf.week)
			}
			if m.viol != nil {
				return
			}
		}
		// C08 (c): after a 5xx / no answer the task leaves the local report alone.
		if st, ok := m.fatalStatus[fc.Task][week]; ok && kind != "" && fc.Mutating && fc.Err == nil {
			if (st >= 500 || st == 0) && kind == "ready" {
				m.fail("retry-report-touched", "uploader task %s got status %d for week %s and then performed %s on %s", fc.Task.Name, st, week, fc.Op, fc.Path)
				return
			}
			if st >= 400 && st < 500 && kind == "uploaded" && !strings.HasSuffix(fc.Path, ".lock") {
				m.fail("rejected-marked-uploaded", "uploader task %s got status %d for week %s and then performed %s on %s", fc.Task.Name, st, week, fc.Op, fc.Path)
				return
			}
		}
	}
}

// scanRequests examines the client send events since the last scan.
func (m *machine) scanRequests() {
	s := m.s
	for ; m.seenReqs < len(s.Requests); m.seenReqs++ {
		r := s.Requests[m.seenReqs]
		week := r.URL[strings.LastIndex(r.URL, "/")+1:]
		if m.fatalStatus[r.Task] == nil {
			m.fatalStatus[r.Task] = map[string]int{}
		}
		m.fatalStatus[r.Task][week] = r.Status
		// ---- C02: consent
		if m.roundMode != "on" {
			m.fail("request-without-consent", "a request for week %s was made while the mode file says %q", week, m.roundMode)
			return
		}
		if _, made := m.allMakers[week]; !made && !validWeek(week) {
			m.fail("foreign-file-sent", "a request was made to %s: the uploader sent a file of the local directory that is not one of its reports", r.URL)
			return
		}
		// "today" is the date (UTC) of the start time the uploader was given or,
		// when it was given none, of the instant at which it read the clock (its
		// last reading: the clock may move between its creation and its first step).
		today := refcal.Date(refcal.DayOfUnix(m.roundStart.Unix()))
		if st, ok := m.startOf[r.Task]; ok && m.uploaderOf[r.Task] == m.round {
			if m.startGiven[r.Task] {
				today = refcal.Date(refcal.DayOfUnix(st.Unix()))
			} else if !r.Task.LastNow.IsZero() {
				today = refcal.Date(refcal.DayOfUnix(r.Task.LastNow.Unix()))
			}
		}
		if len(week) == 10 && week > today {
			m.fail("future-report-sent", "report for week %s was sent by an uploader whose start time is on %s", week, today)
			return
		}
		if !m.roundAsof.IsZero() && len(week) == 10 {
			if asof := refcal.Date(refcal.DayOfUnix(m.roundAsof.Unix())); !(asof < week) {
				m.fail("sent-before-optin", "report for week %s was sent although the opt-in date is %s", week, asof)
				return
			}
		}
		if r.URL != uploadURL+"/"+week || r.ContentType != "application/json" {
			m.fail("request-shape", "unexpected request %s (%s)", r.URL, r.ContentType)
			return
		}
		// ---- C08 (b): acknowledged and recorded as uploaded => never sent again
		if exists(filepath.Join(m.upl, week+".json")) {
			for _, prev := range s.Requests[m.cleanSeq:r.Seq] {
				if prev.Status == 200 && strings.HasSuffix(prev.URL, "/"+week) {
					m.fail("resent-after-upload", "week %s was acknowledged (request #%d) and recorded as uploaded, yet request #%d sends it again", week, prev.Seq, r.Seq)
					return
				}
			}
		}
		// ---- C08 (a): all accepted bodies identical
		if acks := m.acked[week]; len(acks) > 1 {
			for _, a := range acks[1:] {
				if a.body != acks[0].body {
					m.fail("two-bodies-acknowledged", "the server accepted two different bodies for week %s (requests #%d and #%d)", week, acks[0].seq, a.seq)
					return
				}
			}
		}
		// ---- C01: content
		m.checkBody(r, week)
		if m.viol != nil {
			return
		}
	}
}

func numMap(v any) (map[string]int64, bool) {
	out := map[string]int64{}
	if v == nil {
		return out, true
	}
	mm, ok := v.(map[string]any)
	if !ok {
		return nil, false
	}
	for k, x := range mm {
		f, ok := x.(float64)
		if !ok {
			return nil, false
		}
		out[k] = int64(f)
	}
	return out, true
}

func sameMap(a, b map[string]int64) (string, bool) {
	for k, v := range a {
		if w, ok := b[k]; !ok {
			return fmt.Sprintf("%q is missing", k), false
		} else if w != v {
			return fmt.Sprintf("%q is %d, want %d", k, w, v), false
		}
	}
	for k := range b {
		if _, ok := a[k]; !ok {
			return fmt.Sprintf("%q must not be there", k), false
		}
	}
	return "", true
}

// checkBody is the C01 oracle (with the C02 clauses about what may become
// uploadable): the request body is exactly the filtered aggregate of the
// week's files under the configuration of the run that built the report.
func (m *machine) checkBody(r *simrt.Request, week string) {
	var top map[string]any
	if err := json.Unmarshal(r.Body, &top); err != nil {
		m.fail("body-not-a-report", "request #%d for week %s: the body (%d bytes) is not a JSON report: %v", r.Seq, week, len(r.Body), err)
		return
	}
	for k := range top {
		switch k {
		case "Week", "LastWeek", "X", "Programs", "Config":
		default:
			m.fail("extra-field", "request for week %s carries an undocumented field %q", week, k)
			return
		}
	}
	if lw, _ := top["LastWeek"].(string); top["LastWeek"] != nil && lw != "" && !validWeek(lw) {
		m.fail("extra-field", "request for week %s carries LastWeek %v, which is not a date", week, top["LastWeek"])
		return
	}
	if top["Week"] != week {
		m.fail("week-mismatch", "request to %s carries Week %v", r.URL, top["Week"])
		return
	}
	if len(m.allMakers[week]) == 0 {
		m.fail("unknown-report", "a report for week %s was sent that no uploader run created", week)
		return
	}
	// The body may be any report some run built for this week (a sender may hold
	// one that was discarded and rebuilt meanwhile): identify the builder by the
	// config version and X it carries.
	x, _ := top["X"].(float64)
	var maker *simrt.Task
	var cfg *cfgVersion
	for i := len(m.allMakers[week]) - 1; i >= 0 && maker == nil; i-- {
		cand := m.allMakers[week][i]
		cc := m.cfgByTask[cand]
		if cc == nil || top["Config"] != cc.Version {
			continue
		}
		for _, v := range m.xByTask[cand] {
			if v == x {
				maker, cfg = cand, cc
			}
		}
	}
	if maker == nil {
		m.fail("not-a-built-report", "request for week %s carries config %v and X=%v: no run that built a report for this week fetched that config and drew that X", week, top["Config"], x)
		return
	}
	key := fmt.Sprintf("%s#%d", week, maker.ID)
	// ---- C02: what may become uploadable
	if weekCreatedMode[key] != "on" {
		m.fail("uploadable-without-consent", "an uploadable report for week %s was built while the mode was %q", week, weekCreatedMode[key])
		return
	}
	wd := time.Unix(int64(refcal.DaysFromCivil(atoi(week[0:4]), atoi(week[5:7]), atoi(week[8:10])))*86400, 0).UTC()
	if weekCreatedAt[key].Sub(wd) > 21*24*time.Hour && (weekLatestEnd[key].IsZero() || weekCreatedAt[key].Sub(weekLatestEnd[key]) > 21*24*time.Hour) {
		// (older than 21 days whether the week's end is taken as the midnight its name says or as the end its files record)
		m.fail("too-old-uploaded", "week %s ended more than 21 days before the run at %s that made it uploadable", week, weekCreatedAt[key].Format(time.RFC3339))
		return
	}
	if cfg.Ref.SampleRate > 0 && x > cfg.Ref.SampleRate {
		m.fail("sample-rate", "week %s was made uploadable with X=%v above the sample rate %v", week, x, cfg.Ref.SampleRate)
		return
	}
	if asof := weekCreatedAsof[key]; !asof.IsZero() && !weekEarliest[key].IsZero() && !asof.Before(weekEarliest[key]) {
		m.fail("data-before-optin", "week %s contains data from %s, not strictly after the opt-in date %s", week, weekEarliest[key].Format("2006-01-02"), asof.Format("2006-01-02"))
		return
	}
	// ---- C01: content
	want := refreport.Filter(weekAgg[key], cfg.Ref, x)
	progs, _ := top["Programs"].([]any)
	if top["Programs"] != nil && progs == nil {
		m.fail("body-shape", "Programs is not a list")
		return
	}
	got := map[refreport.Build]map[string]any{}
	for _, p := range progs {
		pm, ok := p.(map[string]any)
		if !ok {
			m.fail("body-shape", "program entry is not an object")
			return
		}
		for k := range pm {
			switch k {
			case "Program", "Version", "GoVersion", "GOOS", "GOARCH", "Counters", "Stacks":
			default:
				m.fail("extra-field", "program entry carries an undocumented field %q", k)
				return
			}
		}
		str := func(k string) string { s, _ := pm[k].(string); return s }
		b := refreport.Build{Program: str("Program"), Version: str("Version"), GoVersion: str("GoVersion"), GOOS: str("GOOS"), GOARCH: str("GOARCH")}
		if _, dup := got[b]; dup {
			m.fail("duplicate-program", "week %s: program build %v appears twice", week, b)
			return
		}
		got[b] = pm
	}
	for _, wp := range want.Programs {
		pm, ok := got[wp.Build]
		if !ok && (len(wp.Counters)+len(wp.Stacks) == 0 || !wp.PlatformOK) {
			continue // a build with nothing to send, or on a platform the server would reject, may be omitted
		}
		if !ok {
			m.fail("program-missing", "week %s (config %s, X=%v): approved program build %v is not in the request", week, cfg.Version, x, wp.Build)
			return
		}
		gc, ok1 := numMap(pm["Counters"])
		gs, ok2 := numMap(pm["Stacks"])
		if !ok1 || !ok2 {
			m.fail("body-shape", "counters are not numbers")
			return
		}
		if why, ok := sameMap(wp.Counters, gc); !ok {
			m.fail("counters", "week %s (config %s, X=%v) program %s %s: counter %s", week, cfg.Version, x, wp.Build.Program, wp.Build.Version, why)
			return
		}
		if why, ok := sameMap(wp.Stacks, gs); !ok {
			m.fail("stacks", "week %s (config %s, X=%v) program %s %s: stack %s", week, cfg.Version, x, wp.Build.Program, wp.Build.Version, strings.ReplaceAll(why, "\n", "\\n"))
			return
		}
		delete(got, wp.Build)
	}
	for b := range got {
		js, _ := json.Marshal(cfg.Real)
		var ag []string
		for _, p := range weekAgg[key].Programs {
			ag = append(ag, fmt.Sprint(p.Build))
		}
		m.fail("program-not-approved", "week %s (config %s): program build %v is in the request but is not approved by %s (week files have builds %v, made at %s)", week, cfg.Version, b, js, ag, weekCreatedAt[key].Format(time.RFC3339))
		return
	}
}

func atoi(s string) int {
	n := 0
	for _, c := range s {
		n = n*10 + int(c-'0')
	}
	return n
}

// ---------------------------------------------------------------- kills

type upKill struct {
	task  int
	class string
	k     int
	seen  int
	done  bool
}

var killPlan []*upKill
var upKillClasses = []string{"fs:create-excl", "fs:link", "fs:createtemp", "http:post", "http:result", "fs:writefile-open", "fs:writefile-write", "fs:remove", "fs:readfile", "fs:write ", "fs:stat", "fs:close"}

func (m *machine) maybeKill(tk *simrt.Task) {
	if !m.killsOn || !m.isUploader(tk) || m.uploaderOf[tk] != m.round {
		return
	}
	// One draw per step would make tapes long; a kill is decided when a
	// step of a marked class happens, with small probability.
	for _, cl := range upKillClasses {
		if strings.HasPrefix(tk.LastLabel, cl) {
			if m.t.Bool(1, 150) {
				m.s.Kill(tk.Proc)
				m.sawKill = true
				m.s.Probe("kill after " + strings.TrimSpace(cl))
			}
			return
		}
	}
}

// ---------------------------------------------------------------- the user

func (m *machine) soloTask(name string, fn func()) *simrt.Task {
	p := m.s.NewProc(name, nil)
	tk := m.s.Spawn(p, name, fn)
	m.s.RunSolo(tk, 100000)
	if tk.Panic != nil {
		m.fail("panic", "%s panicked: %v\n%s", name, tk.Panic, tk.PanicStack)
	}
	return tk
}

func (m *machine) userChangesMode(viaCommands bool) {
	t := m.t
	modePath := filepath.Join(m.tele, "mode")
	if fi, err := os.Lstat(modePath); err == nil && fi.IsDir() {
		os.Remove(modePath) // (left by an earlier round: the user puts that right first)
	}
	if viaCommands && t.Bool(1, 5) {
		// the command finds a mode file that holds no valid mode (emptied by an
		// interrupted write, edited by hand): that is not "already the requested mode"
		odd := []string{"", "lo", "banana 2024-01-01", "enabled", "ON", "local 2024-13-45", "\xff\xfe", "of", "on2024-01-01", "locale"}
		os.WriteFile(modePath, []byte(odd[t.Draw(len(odd))]), 0666)
		m.s.Probe("command-over-odd-mode-file")
	}
	if t.Bool(1, 10) {
		os.Remove(modePath) // the user deleted it: the default (local) applies
		m.s.Probe("mode-file-removed")
		if !viaCommands && t.Bool(1, 2) {
			return
		}
	}
	oldMode, _, oldRaw, oldExists := parseMode(modePath)
	if !viaCommands && t.Bool(1, 4) {
		// arbitrary content
		garbage := [][]byte{[]byte(""), []byte("ON"), []byte("on2024-01-01"), []byte("bogus 2024-01-01"), []byte(" on \n"), []byte("on 2024-13-45"), []byte("local\n"), []byte("off 2024-01-01\n"), {0xff, 0xfe}, []byte("on\toff"),
			// near-misses of off and local: none of them is "off" (so reports are built) and none is "on" (so nothing is sent)
			[]byte("OFF"), []byte("Off 2024-01-01"), []byte("offf"), []byte("of"), []byte("off\x00"), []byte("off\t2024-01-01"), []byte("Local"), []byte("locale 2024-01-01"), []byte("o"), []byte("onn"), []byte("on\x00 2024-01-01")}
		if t.Bool(1, 6) {
			b := make([]byte, 4+t.Draw(9))
			for i := range b {
				b[i] = byte(t.Draw(256))
			}
			garbage = append(garbage, b)
			os.WriteFile(modePath, b, 0666)
			m.s.Probe("mode-file-random-bytes")
			return
		}
		g := t.Draw(len(garbage) + 1)
		if g == len(garbage) {
			// a mode file that is there and cannot be read (a directory has its name:
			// the sandbox runs as root, permissions would not stop a read)
			os.Remove(modePath)
			os.Mkdir(modePath, 0777)
			m.s.Probe("mode-file-unreadable")
			return
		}
		os.WriteFile(modePath, garbage[g], 0666)
		return
	}
	want := []string{"on", "local", "off"}[t.Draw(3)]
	if t.Bool(1, 6) {
		// something next to the mode file with a name an implementation might use
		// for itself: an editor's backup, what an interrupted command left behind
		n := []string{"mode.tmp", "mode~", "mode.bak", ".mode.swp", "mode.lock", "mode.new"}[t.Draw(6)]
		os.WriteFile(filepath.Join(m.tele, n), []byte("on 2020-01-01"), 0666)
		m.s.Probe("file-next-to-the-mode-file")
	}
	m.s.Advance(time.Duration(t.Draw(3)) * 24 * time.Hour)
	now := m.s.NowT()
	if viaCommands {
		m.soloTask("user:"+want, func() {
			switch want {
			case "on":
				runOn(nil)
			case "local":
				runLocal(nil)
			case "off":
				runOff(nil)
			}
		})
	} else {
		// the library call, with an explicit as-of time, and the read-back clause of C02
		asof := now.Add(-time.Duration(t.Draw(30))*24*time.Hour - time.Duration(t.Draw(24))*time.Hour)
		// the caller's time may be in any zone: the recorded date is the UTC date
		switch t.Draw(4) {
		case 1:
			asof = asof.In(time.FixedZone("UTC-5", -5*3600))
		case 2:
			asof = asof.In(time.FixedZone("UTC+14", 14*3600))
		case 3:
			asof = asof.In(time.FixedZone("UTC-11:30", -11*3600-1800))
		}
		bad := t.Bool(1, 5)
		req := want
		if bad {
			req = []string{"bogus", "", "on off", "ON", "on;", "uploaded"}[t.Draw(6)]
		}
		// A valid mode with white space around it (read from a settings file, an
		// environment variable, a terminal line). Whether that is a valid request is
		// not something the statement says: it is either refused, leaving the file
		// as it was, or accepted, and then reading back yields the mode itself.
		padded := !bad && t.Bool(1, 6)
		if padded {
			req = []string{" ", "", "\t", "\n"}[t.Draw(4)] + want + []string{" ", "\n", "\r\n", "\t", "  "}[t.Draw(5)]
			m.s.Probe("setmode-with-white-space")
		}
		var err error
		var gotMode string
		var gotTime time.Time
		// or the call without a time: the date recorded is today's (UTC), also
		// when the file already names that mode with no or another date
		plain := t.Bool(1, 3)
		if plain {
			asof = now
		}
		m.soloTask("user:setmode", func() {
			if plain {
				err = telemetry.Default.SetMode(req)
			} else {
				err = telemetry.Default.SetModeAsOf(req, asof)
			}
			gotMode, gotTime = telemetry.Default.Mode()
		})
		if m.viol != nil {
			return
		}
		_, _, newRaw, _ := parseMode(modePath)
		if bad {
			if err == nil {
				m.fail("invalid-mode-accepted", "SetModeAsOf(%q) succeeded", req)
			} else if !bytes.Equal(newRaw, oldRaw) {
				m.fail("invalid-mode-changed-file", "SetModeAsOf(%q) failed but changed the mode file from %q to %q", req, oldRaw, newRaw)
			}
			return
		}
		if padded && err != nil {
			if !bytes.Equal(newRaw, oldRaw) {
				m.fail("invalid-mode-changed-file", "SetModeAsOf(%q) failed but changed the mode file from %q to %q", req, oldRaw, newRaw)
			}
			return
		}
		wantDate := time.Unix(int64(refcal.DayOfUnix(asof.Unix()))*86400, 0).UTC()
		// ("the same date": the UTC date of the instant, which the library documents, or
		// the calendar date the caller's time value carries)
		own := time.Date(asof.Year(), asof.Month(), asof.Day(), 0, 0, 0, 0, time.UTC)
		if z := m.s.Zone; plain && z != nil {
			// (no date was handed over: today's, on the machine's calendar or in UTC)
			l := now.In(z)
			own = time.Date(l.Year(), l.Month(), l.Day(), 0, 0, 0, 0, time.UTC)
		}
		if err != nil || gotMode != want || !(gotTime.Equal(wantDate) || gotTime.Equal(own)) {
			m.fail("mode-roundtrip", "SetModeAsOf(%q, %s) then Mode() = (%q, %s), err=%v", want, asof.Format(time.RFC3339), gotMode, gotTime.Format(time.RFC3339), err)
		}
		return
	}
	if m.viol != nil {
		return
	}
	// C19: the command leaves the file alone if the mode is already the one asked for.
	newMode, newAsof, newRaw, _ := parseMode(modePath)
	if oldMode == want && !oldExists {
		// no mode file means local: asking for local changes nothing
		return
	}
	if oldMode == want && oldExists {
		if !bytes.Equal(newRaw, oldRaw) {
			m.fail("mode-command-rewrote", "gotelemetry %s with the mode already %q changed the mode file from %q to %q", want, oldMode, oldRaw, newRaw)
		}
		return
	}
	// The command records the mode with the current date: today's date in UTC (what
	// the library documents) or on the machine's own calendar; white space around
	// the line is not part of it.
	wantContent := want + " " + refcal.Date(refcal.DayOfUnix(now.Unix()))
	dates := map[string]bool{refcal.Date(refcal.DayOfUnix(now.Unix())): true}
	if z := m.s.Zone; z != nil {
		dates[now.In(z).Format("2006-01-02")] = true
	}
	if newMode != want || newAsof.IsZero() || !dates[newAsof.Format("2006-01-02")] {
		m.fail("mode-command-content", "gotelemetry %s on %s wrote %q, want %q", want, now.Format(time.RFC3339), newRaw, wantContent)
		return
	}
	var libMode string
	var libTime time.Time
	m.soloTask("user:env", func() { libMode, libTime = telemetry.Default.Mode() })
	if libMode != newMode || !libTime.Equal(newAsof) || libMode != want {
		m.fail("mode-command-readback", "after gotelemetry %s the library reads (%q, %s)", want, libMode, libTime.Format(time.RFC3339))
	}
	// ... and what `gotelemetry env` prints is that mode, that date and the
	// directory the commands work on
	if m.viol == nil && t.Bool(1, 2) {
		out := filepath.Join(m.c.Dir, "env.out")
		if f, err := os.Create(out); err == nil {
			saved := os.Stdout
			os.Stdout = f
			m.soloTask("user:env-command", func() { runEnv(nil) })
			os.Stdout = saved
			f.Close()
			text, _ := os.ReadFile(out)
			os.Remove(out)
			lines := strings.Split(string(text), "\n")
			// (how env lays its output out is its own business: the mode and the
			// date are there, and so are the three paths)
			if len(lines) == 0 || !strings.Contains(lines[0], want) || !strings.Contains(lines[0], newAsof.Format("2006-01-02")) {
				m.fail("env-command", "after gotelemetry %s on %s, the first line gotelemetry env prints is %q: it does not name the mode %q and the date %s", want, now.Format(time.RFC3339), lines[0], want, newAsof.Format("2006-01-02"))
			}
			for _, kv := range [][2]string{{"mode file", filepath.Join(m.tele, "mode")}, {"local directory", m.loc}, {"upload directory", m.upl}} {
				if !strings.Contains(string(text), kv[1]) {
					m.fail("env-command", "gotelemetry env does not print the %s %q: %q", kv[0], kv[1], text)
				}
			}
			m.s.Probe("env-command")
		}
	}
}

// userCleans populates the directories with foreign files and runs gotelemetry clean.
func (m *machine) userCleans() {
	t := m.t
	// One of the two data directories may be absent: nothing was uploaded yet,
	// or the user removed local/ by hand.
	dirs := []string{m.loc, m.upl}
	switch t.Biased(4, 1, 2) {
	case 0:
		os.MkdirAll(m.upl, 0777)
	case 1:
		if _, err := os.Stat(m.upl); err != nil {
			dirs = []string{m.loc}
			m.s.Probe("clean-without-upload-dir")
		}
	case 3:
		// upload is a plain file (something else took the name)
		if _, err := os.Stat(m.upl); err != nil {
			os.WriteFile(m.upl, []byte("not a directory"), 0666)
			defer os.Remove(m.upl)
			dirs = []string{m.loc}
			m.s.Probe("clean-with-upload-a-file")
		}
	case 2:
		os.MkdirAll(m.upl, 0777)
		os.WriteFile(filepath.Join(m.upl, "2019-01-07.json"), []byte("{}"), 0666)
		os.RemoveAll(m.loc)
		defer os.MkdirAll(m.loc, 0777)
		dirs = []string{m.upl}
		m.s.Probe("clean-without-local-dir")
	}
	if t.Bool(1, 6) {
		// one of the data directories is a symbolic link to a directory kept
		// elsewhere (another disk): clean works on what the name leads to
		d := dirs[t.Draw(len(dirs))]
		target := filepath.Join(m.c.Dir, "elsewhere-"+filepath.Base(d))
		if fi, err := os.Lstat(d); err == nil && fi.IsDir() && os.Rename(d, target) == nil {
			os.Symlink(target, d)
			defer func() { os.Remove(d); os.Rename(target, d) }()
			m.s.Probe("clean-with-linked-data-directory")
		}
	}
	foreign := []string{"notes.txt", "x.v1.count.bak", "y.jsonx", "z.v2.count", "json", ".json.swp", "v1.count", "report.JSON", "a.count", "upload.token",
		"2024-01-08.json.lock", "stale.lock", "2024-01-08.json.tmp7", "local.2024-01-08.json.tmp3", "weekends.tmp1", "x.v1.count.tmp"}
	exact := []string{"foreign.v1.count", "foreign.json", "local.foreign.json", ".v1.count", ".json"}
	for _, dir := range dirs {
		for _, n := range foreign {
			if t.Bool(1, 3) {
				os.WriteFile(filepath.Join(dir, n), []byte("keep "+n), 0666)
			}
		}
		for _, n := range exact {
			if t.Bool(1, 3) {
				os.WriteFile(filepath.Join(dir, n), []byte("data "+n), 0666)
			}
		}
		if t.Bool(1, 3) {
			os.MkdirAll(filepath.Join(dir, "subdir"), 0777)
			os.WriteFile(filepath.Join(dir, "subdir", "readme"), []byte("keep"), 0666)
			if t.Bool(1, 2) {
				// files with the data suffixes one level down: clean works on the two
				// directories themselves, not on what a user keeps below them
				os.WriteFile(filepath.Join(dir, "subdir", "2024-01-08.json"), []byte("keep"), 0666)
				os.WriteFile(filepath.Join(dir, "subdir", "x.v1.count"), []byte("keep"), 0666)
				m.s.Probe("data-named-file-in-subdirectory")
			}
		}
		// sub-directories named like data files, holding foreign files
		if t.Bool(1, 4) {
			for _, sub := range []string{"backup.json/notes.txt", "old.v1.count/inner/readme", "local.archive.json/list"} {
				if t.Bool(1, 2) {
					os.MkdirAll(filepath.Dir(filepath.Join(dir, sub)), 0777)
					os.WriteFile(filepath.Join(dir, sub), []byte("keep "+sub), 0666)
					m.s.Probe("data-named-directory")
				}
			}
		}
	}
	if t.Bool(1, 4) {
		os.WriteFile(filepath.Join(m.tele, "stray.json"), []byte("keep"), 0666)
	}
	// data-named entries that are symbolic links to files of the user's own
	// (latest.json -> the newest report's copy elsewhere, a link someone made to
	// look at a file): clean may take the link away, never what it leads to
	var links []string
	if t.Bool(1, 5) {
		os.WriteFile(filepath.Join(m.tele, "kept-elsewhere.txt"), []byte("keep"), 0666)
		for _, l := range [][2]string{{filepath.Join(m.loc, "latest.json"), filepath.Join("..", "mode")}, {filepath.Join(m.loc, "mine.v1.count"), filepath.Join("..", "kept-elsewhere.txt")},
			{filepath.Join(m.upl, "latest.json"), filepath.Join("..", "local", "weekends")}, {filepath.Join(m.upl, "gone.json"), filepath.Join("..", "no-such-file")}} {
			if t.Bool(1, 2) && os.Symlink(l[1], l[0]) == nil {
				links = append(links, l[0])
				m.s.Probe("data-named-link-to-a-file")
			}
		}
	}
	defer func() {
		for _, l := range links {
			os.Remove(l) // (should an implementation keep them: the later rounds are not about them)
		}
	}()
	before := dirState(m.tele)
	m.soloTask("user:clean", func() { runClean(nil) })
	// The machine has forgotten which weeks were reported: what happens to a
	// week afterwards is outside C08's history.
	m.acked = map[string][]ack{}
	m.cleanSeq = len(m.s.Requests)
	if m.viol != nil {
		return
	}
	after := dirState(m.tele)
	for p, h := range before {
		base := filepath.Base(p)
		dir := filepath.Dir(p)
		isData := false
		if dir == m.loc && (strings.HasSuffix(base, ".v1.count") || strings.HasSuffix(base, ".json")) {
			isData = true
		}
		if dir == m.upl && strings.HasSuffix(base, ".json") {
			isData = true
		}
		// A file that has a data suffix but not a name the writers produce
		// (foreign.json, .v1.count, a copy of a report under another name) is
		// "a counter file or report" by one reading and "a file of the user's own"
		// by another: either outcome is accepted for it.
		eitherWay := false
		if isData {
			name := strings.TrimSuffix(strings.TrimPrefix(base, "local."), ".json")
			isReport := strings.HasSuffix(base, ".json") && validWeek(name)
			isCount := strings.HasSuffix(base, ".v1.count") && strings.Contains(base, "@") && len(base) > len("x@-2006-01-02.v1.count")
			eitherWay = !isReport && !isCount
		}
		h2, still := after[p]
		switch {
		case eitherWay && (!still || h2 == h):
		case isData && still:
			m.fail("clean-left-data", "gotelemetry clean left %s", m.s.Rel(p))
		case !isData && !still:
			m.fail("clean-removed-other", "gotelemetry clean removed %s", m.s.Rel(p))
		case !isData && h2 != h:
			m.fail("clean-changed-other", "gotelemetry clean changed %s", m.s.Rel(p))
		}
		if m.viol != nil {
			return
		}
	}
	for p := range after {
		if _, ok := before[p]; !ok {
			m.fail("clean-created", "gotelemetry clean created %s", m.s.Rel(p))
			return
		}
	}
	m.s.Probe("clean")
	// the data-named directories are taken away again: what the uploader makes of
	// them is not part of any property here
	for _, dir := range dirs {
		for _, sub := range []string{"backup.json", "old.v1.count", "local.archive.json"} {
			os.RemoveAll(filepath.Join(dir, sub))
		}
	}
}

// ---------------------------------------------------------------- per-round oracle

func (m *machine) checkRound(before, after map[string][32]byte, callsBefore, reqsBefore int, tasks []*simrt.Task) {
	s := m.s
	// reports that existed keep their bytes (local.* and uploaded ones for ever;
	// a ready report may be moved or discarded but not rewritten)
	for p, h := range before {
		week, kind := weekOfReportPath(s.Rel(p))
		if kind == "" {
			continue
		}
		h2, still := after[p]
		if still && h2 != h {
			m.fail("report-rewritten", "the %s report for week %s was rewritten", kind, week)
			return
		}
		if !still && kind != "ready" && m.roundMode != "off" {
			m.fail("report-vanished", "the %s report for week %s disappeared", kind, week)
			return
		}
	}
	// mode off: nothing changes at all
	if m.roundMode == "off" {
		for p, h := range before {
			if h2, ok := after[p]; !ok || h2 != h {
				if strings.HasSuffix(p, ".v1.count") || strings.HasSuffix(p, ".json") {
					m.fail("off-mode-change", "mode is off but %s changed or vanished", s.Rel(p))
					return
				}
			}
		}
		for p := range after {
			if _, ok := before[p]; !ok && (strings.HasSuffix(p, ".v1.count") || strings.HasSuffix(p, ".json")) {
				m.fail("off-mode-change", "mode is off but %s was created", s.Rel(p))
				return
			}
		}
		return
	}
	// files that have not ended or cannot be read are byte-for-byte untouched
	for p, mf := range m.roundFiles {
		if !mf.parseable || !mf.end.Before(m.roundStart) {
			if h2, ok := after[p]; !ok || h2 != mf.hash {
				m.fail("untouchable-file-changed", "%s (unreadable or not yet ended) was changed or removed", mf.base)
				return
			}
		}
	}
	if m.sawKill || m.faultsOn {
		return // the exact-report clause is for runs without crashes and failures
	}
	for _, tk := range tasks {
		if m.dlFail[tk] {
			return
		}
	}
	// every week without a report yet, all files ended and readable, one non-empty
	weeks := map[string][]*modelFile{}
	unfinished := map[string]bool{} // weeks one of whose files has not ended yet: outside the statement's premise ("all ended before the run's start time")
	for _, mf := range m.roundFiles {
		if mf.parseable && mf.end.Before(m.roundStart) {
			weeks[mf.week] = append(weeks[mf.week], mf)
		} else if mf.parseable {
			unfinished[mf.week] = true
		}
	}
	var names []string
	for w := range weeks {
		names = append(names, w)
	}
	sort.Strings(names)
	for _, w := range names {
		if m.hadReport[w] {
			continue
		}
		if unfinished[w] {
			m.s.Probe("week-with-an-unfinished-file")
			continue
		}
		nonEmpty := false
		var files []*refreport.CountFile
		for _, mf := range weeks[w] {
			if !mf.empty {
				nonEmpty = true
			}
			files = append(files, &refreport.CountFile{Path: mf.path, Meta: mf.dec.Meta, Counts: mf.dec.Counts})
		}
		if !nonEmpty {
			continue
		}
		data, err := os.ReadFile(filepath.Join(m.loc, "local."+w+".json"))
		if err != nil {
			m.fail("week-not-reported", "week %s had %d finished counter files and no report, and still has no local report after the run", w, len(files))
			return
		}
		var rep struct {
			Week     string
			Programs []struct {
				Program, Version, GoVersion, GOOS, GOARCH string
				Counters, Stacks                          map[string]int64
			}
		}
		if err := json.Unmarshal(data, &rep); err != nil {
			m.fail("local-report-unreadable", "local report for week %s is not JSON: %v", w, err)
			return
		}
		want := refreport.Aggregate(files)
		if rep.Week != w {
			m.fail("local-report-week", "local report for week %s says Week %q", w, rep.Week)
			return
		}
		// A build without any counter (an empty file) may or may not be listed.
		gotBuilds := map[refreport.Build]bool{}
		for _, gp := range rep.Programs {
			b := refreport.Build{Program: gp.Program, Version: gp.Version, GoVersion: gp.GoVersion, GOOS: gp.GOOS, GOARCH: gp.GOARCH}
			if gotBuilds[b] {
				m.fail("local-report-programs", "local report for week %s lists program build %v twice", w, b)
				return
			}
			gotBuilds[b] = true
			var wp *refreport.ProgramData
			for _, x := range want.Programs {
				if x.Build == b {
					wp = x
				}
			}
			if wp == nil {
				if len(gp.Counters)+len(gp.Stacks) > 0 {
					m.fail("local-report-programs", "local report for week %s has data for program build %v which no file of the week has", w, b)
					return
				}
				continue
			}
			if why, same := sameValues(wp.Counters, nz(gp.Counters)); !same {
				m.fail("local-report-counters", "local report for week %s, %s: counter %s", w, wp.Build.Program, why)
				return
			}
			if why, same := sameValues(wp.Stacks, nz(gp.Stacks)); !same {
				m.fail("local-report-stacks", "local report for week %s, %s: stack %s", w, wp.Build.Program, strings.ReplaceAll(why, "\n", "\\n"))
				return
			}
		}
		for _, wp := range want.Programs {
			if !gotBuilds[wp.Build] && hasData(wp.Counters, wp.Stacks) {
				// (a build none of whose files holds a count may be left out: the
				// statement speaks of values that equal the sums)
				m.fail("local-report-programs", "local report for week %s lacks program build %v", w, wp.Build)
				return
			}
		}
		s.Probe("week-reported")
	}
}

// sameValues compares a local report's values with the sums: "values equal the
// sums", so a name whose sum is zero may be listed with 0 or left out.
func sameValues(want, got map[string]int64) (string, bool) {
	for k, v := range want {
		if w := got[k]; w != v {
			if _, ok := got[k]; !ok {
				return fmt.Sprintf("%q is missing (the files sum to %d)", k, v), false
			}
			return fmt.Sprintf("%q is %d, want %d", k, w, v), false
		}
	}
	for k, w := range got {
		if _, ok := want[k]; !ok && w != 0 {
			return fmt.Sprintf("%q must not be there", k), false
		}
	}
	return "", true
}

func hasData(ms ...map[string]int64) bool {
	for _, m := range ms {
		for _, v := range m {
			if v != 0 {
				return true
			}
		}
	}
	return false
}

func nz(m map[string]int64) map[string]int64 {
	if m == nil {
		return map[string]int64{}
	}
	return m
}

// checkLiveness (C08, no kills): once the server answers 200 and nothing fails,
// within three further sequential runs every week that has a sendable report
// is acknowledged and recorded as uploaded, and over the whole history no week
// was acknowledged to a client twice... with different bodies (checked above).
func (m *machine) checkLiveness(hist *[]string) {
	s := m.s
	m.serverPolicy = 0
	mode, asof, _, _ := parseMode(filepath.Join(m.tele, "mode"))
	if mode != "on" {
		return
	}
	for i := 0; i < 3 && m.viol == nil; i++ {
		m.round++
		m.roundMode, m.roundAsof = mode, asof
		m.roundStart = s.NowT()
		m.snapshotFiles()
		p := s.NewProc(fmt.Sprintf("uploader-final-%d", i), nil)
		tk := s.Spawn(p, p.Name, func() { upload.Run(upload.RunConfig{TelemetryDir: m.tele, UploadURL: uploadURL}) })
		m.uploaderOf[tk] = m.round
		s.MaxSteps = s.Steps + 200000
		s.Run()
		m.scanCalls()
		m.scanRequests()
	}
	if m.viol != nil {
		return
	}
	today := refcal.Date(refcal.DayOfUnix(s.NowT().Unix()))
	if m.uplUnusable {
		n200 := map[string]int{}
		var weeks []string
		for _, r := range s.Requests[m.cleanSeq:] {
			if r.Status == 200 {
				w := r.URL[strings.LastIndex(r.URL, "/")+1:]
				if n200[w] == 0 {
					weeks = append(weeks, w)
				}
				n200[w]++
			}
		}
		sort.Strings(weeks)
		for _, w := range weeks {
			if n200[w] > 1 {
				m.fail("acknowledged-not-once", "nothing crashed, the upload directory is unusable, and week %s was acknowledged to a client %d times", w, n200[w])
				return
			}
		}
		return
	}
	ents, _ := os.ReadDir(m.loc)
	for _, e := range ents {
		n := e.Name()
		if !strings.HasSuffix(n, ".json") || strings.HasPrefix(n, "local.") {
			continue
		}
		week := strings.TrimSuffix(n, ".json")
		if len(week) != 10 || week > today || !validWeek(week) {
			continue // (a name that is no date is a foreign file, not a report)
		}
		if !asof.IsZero() && !(refcal.Date(refcal.DayOfUnix(asof.Unix())) < week) {
			continue
		}
		if exists(filepath.Join(m.upl, week+".json.lock")) {
			continue
		}
		if exists(filepath.Join(m.upl, week+".json")) {
			continue // recorded as uploaded: keeping the local copy as well is not a failure to deliver
		}
		m.fail("never-delivered", "no crash happened and the server now answers 200, but after three more runs the report for week %s is still waiting in local/", week)
		return
	}
	// every week some run made sendable and that was not discarded by a 4xx must be recorded as uploaded
	for week, maker := range m.reportMaker {
		_ = maker
		rejected := false
		for _, r := range s.Requests {
			if strings.HasSuffix(r.URL, "/"+week) && r.Status >= 400 && r.Status < 500 {
				rejected = true
			}
		}
		if rejected || week > today {
			continue
		}
		if !asof.IsZero() && !(refcal.Date(refcal.DayOfUnix(asof.Unix())) < week) {
			continue
		}
		if !exists(filepath.Join(m.upl, week+".json")) {
			m.fail("never-delivered", "week %s was made uploadable, no request for it was rejected and nothing crashed, yet it is not recorded as uploaded after three undisturbed runs", week)
			return
		}
		n200 := 0
		for _, r := range s.Requests {
			if strings.HasSuffix(r.URL, "/"+week) && r.Status == 200 {
				n200++
			}
		}
		if n200 != 1 {
			m.fail("acknowledged-not-once", "week %s was acknowledged to a client %d times", week, n200)
			return
		}
	}
}

// validWeek reports whether s is a calendar date YYYY-MM-DD.
func validWeek(s string) bool {
	if len(s) != 10 || s[4] != '-' || s[7] != '-' {
		return false
	}
	for i, c := range s {
		if i != 4 && i != 7 && (c < '0' || c > '9') {
			return false
		}
	}
	y, mo, d := atoi(s[0:4]), atoi(s[5:7]), atoi(s[8:10])
	yy, mm, dd := refcal.CivilFromDays(refcal.DaysFromCivil(y, mo, d))
	return yy == y && mm == mo && dd == d
}
