package main

// Harness H2: the machine world. Counter files of several programs and weeks,
// 1..4 concurrent uploader runs per round (the real upload.Run), the user's
// mode commands (the real runOn/runOff/runLocal/runClean), a config store whose
// version changes, a simulated upload server, kills, file-system faults and a
// multi-week calendar. Hosted as a test file overlaid into cmd/gotelemetry so
// that the unexported commands are reachable.

import (
	"crypto/rand"
	"crypto/sha256"
	"encoding/binary"
	"encoding/json"
	"fmt"
	"io"
	"log"
	"math"
	"os"
	"path/filepath"
	"sort"
	"strings"
	"syscall"
	"testing"
	"time"

	"golang.org/x/telemetry/internal/telemetry"
	"golang.org/x/telemetry/internal/upload"
	"golang.org/x/telemetry/internal/verifsim/hlib"
	"golang.org/x/telemetry/internal/verifsim/mgen"
	"golang.org/x/telemetry/internal/verifsim/ref/refcal"
	"golang.org/x/telemetry/internal/verifsim/ref/refformat"
	"golang.org/x/telemetry/internal/verifsim/simrt"
)

func TestVerifSim(t *testing.T) {
	devnull, _ := os.OpenFile(os.DevNull, os.O_WRONLY, 0)
	os.Stderr = devnull // the commands print messages for the user
	log.SetOutput(io.Discard)
	hlib.Main("h2", map[string]hlib.Scenario{
		"C07": func(c *hlib.RunCtx) *hlib.Violation {
			if c.Flag("family") == "diskfault" {
				return scenarioUploadFaults(c)
			}
			return scenarioMachine(c)
		},
		"C08": func(c *hlib.RunCtx) *hlib.Violation {
			if c.Flag("family") == "diskfault" {
				return scenarioUploadFaults(c)
			}
			return scenarioMachine(c)
		},
		"C01": scenarioMachine,
		"C02": scenarioMachine,
		"C19": scenarioMachine,
		"C09": scenarioMachine,
		"C05": scenarioUploadFaults,
		"C11": scenarioViewer,
	})
}

const uploadURL = "http://telemetry.sim/upload"

// ---------------------------------------------------------------- model types

type cfgVersion = mgen.CfgVersion

type modelFile struct {
	path      string
	base      string
	data      []byte
	hash      [32]byte
	dec       *refformat.File // nil if the file does not decode
	begin     time.Time
	end       time.Time
	week      string // end date
	parseable bool
	empty     bool
}

type ack struct {
	week string
	body string
	seq  int
}

type machine struct {
	c    *hlib.RunCtx
	s    *simrt.Sim
	t    *simrt.Tape
	prop string
	tele string
	loc  string
	upl  string
	viol *hlib.Violation

	cfgs      []*cfgVersion
	cfgByTask map[*simrt.Task]*cfgVersion
	dlFail    map[*simrt.Task]bool
	xs        []float64 // candidate X values
	xByTask   map[*simrt.Task][]float64

	// server side
	serverPolicy int
	acked        map[string][]ack // week -> acknowledged bodies
	stored       map[string]bool
	verdict      map[string]int      // week+body -> 200 / 400: the server's verdict on a report is stable
	uploaderOf   map[*simrt.Task]int // uploader task -> round

	round           int
	roundMode       string    // independently parsed mode at the start of the round
	roundAsof       time.Time // recorded opt-in date (zero if none/unparsable)
	roundStart      time.Time
	roundFiles      map[string]*modelFile
	weekFiles       map[string][]*modelFile
	hadReport       map[string]bool // weeks that had a report of any kind before the round
	seenCalls       int
	seenReqs        int
	lastFsState     int
	cleanSeq        int // requests before this index precede the latest gotelemetry clean
	killsOn         bool
	uplUnusable     bool
	reportedAtStart map[string]bool
	startOf         map[*simrt.Task]time.Time // when each uploader was started
	startGiven      map[*simrt.Task]bool      // whether it was handed a start time
	entropyFails    bool
	markerAtSend    map[int]bool // request seq -> upload/<week>.json existed when it was sent
	faultsOn        bool
	sawKill         bool
	reportMaker     map[string]*simrt.Task // week -> task that created local/<week>.json
	allMakers       map[string][]*simrt.Task
	localMaker      map[string]*simrt.Task
	fatalStatus     map[*simrt.Task]map[string]int // uploader task -> week -> status it received
}

func (m *machine) fail(inv, format string, args ...any) {
	if m.viol == nil {
		m.viol = hlib.Violationf(m.prop, inv, format, args...)
		m.s.Logf("VIOLATION", "%s: %s", inv, m.viol.Message)
		m.s.Stop = true
	}
}

// ---------------------------------------------------------------- generators

// xReader is installed as crypto/rand.Reader (an exported variable: an existing
// seam). computeRandom turns 8 bytes into X = 2*frac-1 for the 52-bit fraction
// of the float they encode; the reader encodes (X+1)/2 so that X is the value
// the tape chose.
type xReader struct{ m *machine }

func (r xReader) Read(p []byte) (int, error) {
	m := r.m
	if m.entropyFails {
		m.s.FaultsHit["entropy:EIO"]++
		return 0, syscall.EIO // the system's entropy source fails (upload-failure world only)
	}
	x := m.xs[m.t.Biased(len(m.xs), 1, 2)]
	if len(p) >= 8 {
		binary.LittleEndian.PutUint64(p, math.Float64bits((x+1)/2))
	}
	if t := simrt.Cur(); t != nil {
		m.xByTask[t] = append(m.xByTask[t], x)
	}
	return len(p), nil
}

// snapshotFiles builds the model of the counter files present at the start of a round.
func (m *machine) snapshotFiles() {
	// weeks that have a report of any kind (local, ready, recorded as uploaded) when the round starts
	m.reportedAtStart = reportWeeks(m.loc)
	for w := range reportWeeks(m.upl) {
		m.reportedAtStart[w] = true
	}
	m.roundFiles = map[string]*modelFile{}
	m.weekFiles = map[string][]*modelFile{}
	ents, _ := os.ReadDir(m.loc)
	for _, e := range ents {
		if !strings.HasSuffix(e.Name(), ".v1.count") {
			continue
		}
		p := filepath.Join(m.loc, e.Name())
		data, err := os.ReadFile(p)
		if err != nil {
			continue
		}
		mf := &modelFile{path: p, base: e.Name(), data: data, hash: sha256.Sum256(data)}
		if d, err := refformat.Decode(data); err == nil {
			b, err1 := time.Parse(time.RFC3339, d.Meta["TimeBegin"])
			en, err2 := time.Parse(time.RFC3339, d.Meta["TimeEnd"])
			if err1 == nil && err2 == nil {
				mf.dec, mf.parseable, mf.begin, mf.end = d, true, b, en
				mf.week = refcal.Date(refcal.DayOfUnix(en.Unix()))
				mf.empty = len(d.Counts) == 0
			}
		}
		m.s.Logf("model", "file %s week=%s parseable=%v empty=%v end=%s", e.Name(), mf.week, mf.parseable, mf.empty, mf.end.Format(time.RFC3339))
		if !mf.parseable {
			_, err := refformat.Decode(data)
			m.s.Logf("model", "%s is unreadable for the model: %v", e.Name(), err)
		}
		m.roundFiles[p] = mf
	}
}

// parseMode is the independent reading of the mode file: the first
// space-separated word is the mode, an optional second word the opt-in date.
func parseMode(path string) (mode string, asof time.Time, raw []byte, exists bool) {
	data, err := os.ReadFile(path)
	if err != nil {
		return "local", time.Time{}, nil, false
	}
	s := strings.TrimSpace(string(data))
	if i := strings.IndexByte(s, ' '); i >= 0 {
		rest := s[i+1:]
		s = s[:i]
		if len(rest) == 10 {
			var y, mo, d int
			if n, _ := fmt.Sscanf(rest, "%4d-%2d-%2d", &y, &mo, &d); n == 3 && mo >= 1 && mo <= 12 && d >= 1 && d <= 31 && rest[4] == '-' && rest[7] == '-' {
				if yy, mm, dd := refcal.CivilFromDays(refcal.DaysFromCivil(y, mo, d)); yy == y && mm == mo && dd == d {
					asof = time.Unix(int64(refcal.DaysFromCivil(y, mo, d))*86400, 0).UTC()
				}
			}
		}
	}
	return s, asof, data, true
}

func reportWeeks(dir string) map[string]bool {
	out := map[string]bool{}
	ents, _ := os.ReadDir(dir)
	for _, e := range ents {
		n := e.Name()
		if strings.HasSuffix(n, ".json") {
			n = strings.TrimSuffix(n, ".json")
			n = strings.TrimPrefix(n, "local.")
			out[n] = true
		}
	}
	return out
}

func dirState(dirs ...string) map[string][32]byte {
	out := map[string][32]byte{}
	for _, d := range dirs {
		filepath.Walk(d, func(p string, info os.FileInfo, err error) error {
			if err != nil || info.IsDir() {
				return nil
			}
			if info.Mode()&os.ModeSymlink != 0 {
				// a directory reached through a link: its files are listed under the link's name
				if st, err := os.Stat(p); err == nil && st.IsDir() {
					for q, h := range dirState(p + string(filepath.Separator)) {
						out[q] = h
					}
					return nil
				}
			}
			b, _ := os.ReadFile(p)
			out[p] = sha256.Sum256(b)
			return nil
		})
	}
	return out
}

// ---------------------------------------------------------------- the scenario

func scenarioMachine(c *hlib.RunCtx) *hlib.Violation {
	t := c.Tape
	prop := c.Prop
	family := c.Flag("family")
	resetWeekMemory()
	// start on a tape-chosen day in 2024..2026
	day := refcal.DaysFromCivil(2024, 1, 1) + t.Draw(800)
	if prop == "C09" {
		switch t.Draw(3) {
		case 0:
			day = refcal.DaysFromCivil(1990, 1, 1) + t.Draw(25567)
		case 1:
			day = refcal.DaysFromCivil(1990+t.Draw(70), 12, 20) + t.Draw(20)
		case 2:
			day = refcal.DaysFromCivil(1990+t.Draw(70), 2, 20) + t.Draw(12)
		}
	}
	start := time.Unix(int64(day)*86400, 0).UTC().Add(time.Duration(t.Draw(86400)) * time.Second)
	s := simrt.New(t, c.Dir, start)
	s.KeepTrace = true
	s.TraceCap = 6000
	if c.Trace {
		s.TraceCap = 300000
	}
	s.PermuteMaps = true
	// The machine's local time zone: what time.Now() carries in every process.
	if z := t.Biased(4, 2, 3); z > 0 {
		s.SetZone([]*time.Location{nil, time.FixedZone("UTC-8", -8*3600), time.FixedZone("UTC+14", 14*3600), time.FixedZone("UTC-11:30", -(11*3600 + 1800))}[z])
		s.Probe("machine-in-local-zone")
	}
	c.Sim = s
	simrt.Attach(s)
	defer simrt.Detach()

	// The telemetry directory's own path may contain a date (a dated backup or
	// home directory), possibly the date of a week that will be reported.
	teleName := "tele"
	if t.Bool(1, 4) {
		teleName = "tele-" + refcal.Date(day+t.Draw(30))
		s.Probe("dated-directory-name")
	} else if t.Bool(1, 6) {
		// characters that mean something to a pattern matcher or a shell
		teleName = []string{"tele[1]", "tele*", "te?le", "tele {a,b}", "tele\\x"}[t.Draw(5)]
		s.Probe("odd-directory-name")
	}
	m := &machine{c: c, s: s, t: t, prop: prop, tele: filepath.Join(c.Dir, teleName),
		cfgByTask: map[*simrt.Task]*cfgVersion{}, dlFail: map[*simrt.Task]bool{}, xByTask: map[*simrt.Task][]float64{},
		acked: map[string][]ack{}, stored: map[string]bool{}, verdict: map[string]int{}, uploaderOf: map[*simrt.Task]int{},
		reportMaker: map[string]*simrt.Task{}, allMakers: map[string][]*simrt.Task{}, localMaker: map[string]*simrt.Task{}, fatalStatus: map[*simrt.Task]map[string]int{}, startOf: map[*simrt.Task]time.Time{}, startGiven: map[*simrt.Task]bool{}}
	m.loc = filepath.Join(m.tele, "local")
	m.upl = filepath.Join(m.tele, "upload")
	telemetry.Default = telemetry.NewDir(m.tele)
	os.MkdirAll(m.loc, 0777)
	os.WriteFile(filepath.Join(m.loc, "weekends"), []byte(fmt.Sprintf("%d\n", t.Draw(7))), 0666)
	if t.Bool(1, 5) {
		// weeks that were uploaded earlier and whose local copies the user has
		// tidied away: only the uploaded marker is left
		os.MkdirAll(m.upl, 0777)
		for i, n := 0, 1+t.Draw(3); i < n; i++ {
			w := refcal.Date(day - t.Draw(25))
			os.WriteFile(filepath.Join(m.upl, w+".json"), []byte(`{"Week":"`+w+`","X":0.5,"Config":"v0.0.1"}`), 0666)
		}
		s.Probe("marker-only-weeks")
	}
	if t.Bool(1, 6) {
		// the user asked for logs: uploaders write them here, and data-named files may lie around
		os.MkdirAll(filepath.Join(m.tele, "debug"), 0777)
		os.WriteFile(filepath.Join(m.tele, "debug", "old.v1.count"), []byte("keep"), 0666)
		os.WriteFile(filepath.Join(m.tele, "debug", "2024-01-08.json"), []byte("keep"), 0666)
		os.WriteFile(filepath.Join(m.tele, "x.v1.count"), []byte("keep"), 0666)
		s.Probe("debug-directory")
	}

	m.xs = []float64{mgen.Dyadic(1 << 18), mgen.Dyadic(1 << 19), mgen.Dyadic(1<<19 + 1), mgen.Dyadic(1<<19 - 1), mgen.Dyadic(1), mgen.Dyadic(1<<20 - 1), mgen.Dyadic(3 << 18)}
	saveReader := rand.Reader
	rand.Reader = xReader{m}
	defer func() { rand.Reader = saveReader }()
	m.cfgs = append(m.cfgs, mgen.GenConfig(m.t, "v0.1.0"))
	mgen.ServeConfig(s, c.Dir, nil, func(version string, env []string) (*telemetry.UploadConfig, string, error) {
		simrt.Yield("config:download")
		tk := simrt.Cur()
		if t.Bool(1, 12) {
			// a new version is published while the round's uploaders are at work
			m.cfgs = append(m.cfgs, mgen.GenConfig(m.t, fmt.Sprintf("v0.%d.0", len(m.cfgs)+1)))
			s.Probe("config-published-mid-round")
		}
		cur := m.cfgs[len(m.cfgs)-1]
		if (m.faultsOn || m.prop == "C01" || m.prop == "C07") && t.Bool(1, 15) {
			// the `go` command fails for this uploader (no network, module proxy down)
			s.Probe("config-download-fails")
			m.dlFail[tk] = true
			s.Logf("config", "download fails")
			return nil, "", fmt.Errorf("simulated config download failure")
		}
		m.cfgByTask[tk] = cur
		s.Logf("config", "download -> %s", cur.Version)
		// hand out a deep copy: the uploader must not be able to change the store
		js, _ := json.Marshal(cur.Real)
		var cp telemetry.UploadConfig
		json.Unmarshal(js, &cp)
		return &cp, cur.Version, nil
	})

	// Which behaviours are on depends on the property's family.
	modeChanges := prop == "C02" || prop == "C19" || family == "modes"
	m.killsOn = prop == "C08" && family != "nokill"
	m.faultsOn = family == "faults"
	if prop == "C08" && !m.killsOn && t.Bool(1, 8) {
		// The upload directory cannot be created (a plain file has its name):
		// nothing can be recorded as uploaded. Delivery is then not demanded,
		// but without crashes no week may be acknowledged more than once.
		os.WriteFile(m.upl, []byte("not a directory"), 0666)
		m.uplUnusable = true
		s.Probe("upload-dir-unusable")
	}
	userCmds := prop == "C19"
	// initial mode
	initial := "on"
	if prop == "C07" && t.Bool(1, 3) {
		initial = "local"
	}
	if modeChanges {
		initial = []string{"on", "local", "off"}[t.Draw(3)]
	}
	m.setModeDirect(initial, start.Add(-time.Duration(t.Draw(40))*24*time.Hour), t.Bool(1, 4))
	m.serverPolicy = 0
	if prop == "C08" {
		m.serverPolicy = 1 + t.Draw(3)
	} else if t.Bool(1, 3) {
		m.serverPolicy = 1 + t.Draw(3) // reports stay ready across rounds: later rounds meet them with another date, mode or configuration
	}
	s.Transport = m.transport

	switch t.Draw(4) {
	case 0:
		s.Strat = simrt.StratUniform
	case 1:
		s.Strat = simrt.StratBursty
		s.BurstNum, s.BurstDen = 7, 8
	case 2:
		s.SetPCT(1+t.Draw(3), 300)
	case 3:
		s.SetDelay([]string{"fs:create-excl", "fs:link", "fs:createtemp", "http:post", "http:result", "fs:stat", "fs:readfile", "fs:remove", "fs:readdir", "fs:writefile", "fs:write ", "config:download"}, 1+t.Rng.Intn(3))
	}

	rounds := 2 + t.Draw(3)
	var hist []string
	s.AfterStep = func(tk *simrt.Task) {
		if m.viol != nil {
			return
		}
		if tk.Panic != nil {
			m.fail("panic", "task %s panicked: %v\n%s", tk.Name, tk.Panic, tk.PanicStack)
			return
		}
		m.scanCalls()
		m.scanRequests()
		m.maybeKill(tk)
		m.abstractState()
	}
	for r := 0; r < rounds && m.viol == nil; r++ {
		m.round = r
		// time passes
		if r > 0 && t.Bool(1, 10) {
			// the machine's clock is set back (a wrong date was corrected): reports
			// built meanwhile are now dated in the future
			s.StepBack(time.Duration(1+t.Draw(20))*24*time.Hour + time.Duration(t.Draw(3600))*time.Second)
			s.Probe("clock-set-back")
		} else {
			s.Advance(time.Duration(1+t.Draw(9))*24*time.Hour + time.Duration(t.Draw(3600))*time.Second)
		}
		// new counter files
		nfiles := t.Draw(4)
		if r == 0 {
			nfiles = 1 + t.Draw(4)
		}
		// Files often share a week (several programs and builds ending on the
		// same day), which is when per-program aggregation and filtering matter.
		lastEndAgo := -1
		for i := 0; i < nfiles; i++ {
			days := 1 + t.Draw(7)
			ago := 1 + t.Draw(30)
			if lastEndAgo >= 0 && t.Bool(1, 2) {
				ago = lastEndAgo + days // same end date as the previous file
			}
			lastEndAgo = ago - days
			kind := t.Biased(8, 4, 5)
			mgen.WriteCounterFile(m.t, m.s, m.loc, s.NowT().Add(-time.Duration(ago)*24*time.Hour), days, kind)
		}
		if r > 0 && t.Bool(1, 5) {
			// a late counter file of a week whose report is already there, sent or not
			// (a process that outlived the report, a copy restored from a backup)
			var weeks []string
			if ents, err := os.ReadDir(m.loc); err == nil {
				for _, e := range ents {
					if n := e.Name(); len(n) == len("2006-01-02.json") && strings.HasSuffix(n, ".json") {
						if _, err := time.Parse("2006-01-02", n[:10]); err == nil {
							weeks = append(weeks, n[:10])
						}
					}
				}
			}
			if len(weeks) > 0 {
				wk := weeks[t.Draw(len(weeks))]
				w, _ := time.Parse("2006-01-02", wk)
				if t.Bool(1, 2) {
					// ... and the user has tidied the week's local copy away: only the unsent report is left
					if os.Remove(filepath.Join(m.loc, "local."+wk+".json")) == nil {
						s.Probe("ready-report-without-local-copy")
					}
				}
				days := 1 + t.Draw(7)
				mgen.WriteCounterFile(m.t, m.s, m.loc, w.Add(-time.Duration(days)*24*time.Hour), days, 0)
				s.Probe("late-file-of-a-week-with-a-ready-report")
			}
		}
		if t.Bool(1, 5) { // a file that is still active
			mgen.WriteCounterFile(m.t, m.s, m.loc, s.NowT(), 1+t.Draw(7), 0)
		}
		// the user leaves a file of his own in local/: a copy of a report under
		// another name, notes, an editor's backup
		if t.Bool(1, 6) {
			strays := []string{"2023-02-29.json", "2024-13-01.json", "2024-04-31.json", "copy-local.2024-01-08.json", "backup-2024-01-08.json", "notes-2024.json", "1.json", ".json", "local-copy.json", "2024-01-08 (1).json", "x2024-01-08.json"}
			body := `{"Week":"2024-01-08","LastWeek":"","X":0.25,"Programs":[{"Program":"secret.example/tool","Version":"v1.0.0","GoVersion":"go1.21.0","GOOS":"linux","GOARCH":"amd64","Counters":{"private/counter":7},"Stacks":{}}],"Config":"v0.1.0"}`
			os.WriteFile(filepath.Join(m.loc, strays[t.Draw(len(strays))]), []byte(body), 0666)
			s.Probe("stray-json-in-local")
		}
		// ... or in upload/, where the names of the weeks already sent are kept
		if t.Bool(1, 8) {
			strays := []string{"1.json", "2024-01-08_copy.json", "2024-01-08.json.json", "1999.json", "2023-02-29.json", "0 my notes.json", "2024-01-08 (1).json"}
			os.MkdirAll(m.upl, 0777)
			os.WriteFile(filepath.Join(m.upl, strays[t.Draw(len(strays))]), []byte(`{"mine":true}`), 0666)
			s.Probe("stray-json-in-upload")
		}
		// config store moves on
		if t.Bool(1, 3) {
			m.cfgs = append(m.cfgs, mgen.GenConfig(m.t, fmt.Sprintf("v0.%d.0", len(m.cfgs)+1)))
		}
		// the user
		if modeChanges && t.Bool(1, 2) {
			m.userChangesMode(userCmds)
		}
		if userCmds && t.Bool(1, 3) {
			m.userCleans()
			if m.viol != nil {
				break
			}
		}
		m.runRound(&hist)
	}
	c.Sample = map[string]any{"start": start.Format(time.RFC3339), "rounds": rounds, "history": hist, "initial_mode": initial,
		"server_policy": m.serverPolicy, "configs": len(m.cfgs), "requests": len(s.Requests)}
	if m.viol == nil && prop == "C08" && !m.killsOn {
		m.checkLiveness(&hist)
	}
	return m.viol
}

func (m *machine) setModeDirect(mode string, asof time.Time, noDate bool) {
	os.MkdirAll(m.tele, 0777)
	content := mode + " " + refcal.Date(refcal.DayOfUnix(asof.Unix()))
	if noDate {
		content = mode
	}
	// hand-edited mode files end in a newline (or CRLF); surrounding white space is not part of the mode or the date
	content += []string{"", "", "\n", "\r\n", " "}[m.t.Draw(5)]
	os.WriteFile(filepath.Join(m.tele, "mode"), []byte(content), 0666)
}

// runRound runs 1..4 concurrent uploaders to quiescence and applies the oracles.
func (m *machine) runRound(hist *[]string) {
	s, t := m.s, m.t
	// Sometimes the round begins seconds before midnight (UTC) and its late
	// uploaders start seconds after it: "today" differs between them.
	straddle := t.Bool(1, 10)
	var midnight time.Time
	if straddle {
		midnight = time.Unix((s.NowT().Unix()/86400+1)*86400, 0).UTC()
		s.AdvanceTo(midnight.Add(-10 * time.Second))
	}
	m.roundMode, m.roundAsof, _, _ = parseMode(filepath.Join(m.tele, "mode"))
	m.roundStart = s.NowT()
	m.snapshotFiles()
	if straddle {
		// ... provided no file changes its status at that midnight (none ends
		// then, none turns 21 days old then, all recorded ends are midnights)
		for _, mf := range m.roundFiles {
			if !mf.parseable {
				continue
			}
			if mf.end.Equal(midnight) || mf.end.Unix()%86400 != 0 || mf.end.Add(21*24*time.Hour).Equal(midnight) {
				straddle = false
			}
		}
	}
	m.hadReport = reportWeeks(m.loc)
	for w := range reportWeeks(m.upl) {
		m.hadReport[w] = true
	}
	before := dirState(m.loc, m.upl)
	nup := 1 + t.Biased(4, 1, 3)
	if m.prop == "C08" {
		nup = 2 + t.Draw(3)
	}
	callsBefore := len(s.CallLog)
	reqsBefore := len(s.Requests)
	// C09: the run's start time is placed relative to the recorded end of a file.
	var explicitStart time.Time
	if m.prop == "C02" && t.Bool(1, 5) {
		// the run starts exactly 21 days after a week's end, a nanosecond earlier or later
		var ends []time.Time
		for _, mf := range m.roundFiles {
			if mf.parseable && len(mf.week) == 10 {
				ends = append(ends, time.Unix(int64(refcal.DaysFromCivil(atoi(mf.week[0:4]), atoi(mf.week[5:7]), atoi(mf.week[8:10])))*86400, 0).UTC())
			}
		}
		sort.Slice(ends, func(i, j int) bool { return ends[i].Before(ends[j]) })
		if len(ends) > 0 {
			explicitStart = ends[t.Draw(len(ends))].Add(21*24*time.Hour + time.Duration(t.Draw(3)-1)*time.Nanosecond)
			m.roundStart = explicitStart
			m.s.Probe("start-21-days-after-a-week")
		}
	}
	if m.prop == "C09" {
		var ends []time.Time
		for _, mf := range m.roundFiles {
			if mf.parseable {
				ends = append(ends, mf.end)
			}
		}
		sort.Slice(ends, func(i, j int) bool { return ends[i].Before(ends[j]) })
		if len(ends) > 0 {
			e := ends[t.Draw(len(ends))]
			switch t.Draw(5) {
			case 0:
				explicitStart = e
			case 1:
				explicitStart = e.Add(-time.Nanosecond)
			case 2:
				explicitStart = e.Add(time.Nanosecond)
			case 3:
				explicitStart = e.Add(time.Duration(t.Draw(48)) * time.Hour)
			}
			if !explicitStart.IsZero() {
				m.roundStart = explicitStart
				m.s.Probe("explicit-start-time")
			}
		}
	}
	var tasks []*simrt.Task
	// Some uploaders start late: after the others have taken a tape-chosen
	// number of steps (a late starter may already see only part of the week's
	// files, or reports in the middle of being created and consumed).
	late := 0
	if nup >= 2 && t.Bool(1, 6) {
		late = 1 + t.Draw(nup-1)
	}
	if explicitStart.IsZero() && straddle && nup >= 2 && late == 0 {
		late = 1
	}
	straddle = straddle && late > 0 && explicitStart.IsZero()
	spawnUploader := func(i int) {
		p := s.NewProc(fmt.Sprintf("uploader-r%d-%d", m.round, i), nil)
		st := explicitStart
		if t.Bool(1, 5) {
			// the caller hands over the same instant in its local zone
			if st.IsZero() {
				st = m.roundStart
			}
			st = st.In([]*time.Location{time.FixedZone("UTC-8", -8*3600), time.FixedZone("UTC+14", 14*3600), time.FixedZone("UTC-11:30", -(11*3600 + 1800))}[t.Draw(3)])
			s.Probe("start-time-in-local-zone")
		}
		tk := s.Spawn(p, p.Name, func() {
			upload.Run(upload.RunConfig{TelemetryDir: m.tele, UploadURL: uploadURL, StartTime: st})
		})
		m.uploaderOf[tk] = m.round
		m.startOf[tk] = s.NowT()
		if !st.IsZero() {
			m.startOf[tk] = st // the start time the uploader was given
			m.startGiven[tk] = true
		}
		tasks = append(tasks, tk)
	}
	for i := 0; i < nup-late; i++ {
		spawnUploader(i)
	}
	for i := nup - late; i < nup && m.viol == nil; i++ {
		for k := 10 + t.Draw(150); k > 0 && m.viol == nil && s.Step(); k-- {
		}
		if straddle && i == nup-late {
			s.AdvanceTo(midnight.Add(time.Duration(1+t.Draw(10)) * time.Second))
			s.Probe("uploaders-straddle-midnight")
		}
		spawnUploader(i)
		s.Probe("late-uploader")
	}
	*hist = append(*hist, fmt.Sprintf("round %d: %s mode=%s asof=%s files=%d uploaders=%d cfg=%s", m.round, m.roundStart.Format("2006-01-02T15:04"), m.roundMode,
		m.roundAsof.Format("2006-01-02"), len(m.roundFiles), nup, m.cfgs[len(m.cfgs)-1].Version))
	s.MaxSteps = s.Steps + 200000
	capped := s.Run()
	if m.viol != nil {
		return
	}
	if capped {
		m.fail("waits-forever", "uploader round does not finish within the step budget")
		return
	}
	for _, tk := range s.Live() {
		if !tk.Blocked() {
			continue
		}
		m.fail("waits-forever", "uploader task %s is blocked for ever at %s", tk.Name, tk.Label)
		return
	}
	m.scanCalls()
	m.scanRequests()
	if m.viol != nil {
		return
	}
	// C08: a report answered with a client error is discarded. Judged once the
	// round is over, for the uploaders that ran to their end (a killed one
	// discards nothing) on a healthy disk: after the answer the uploader has
	// removed the week's waiting report, or tried to and found it gone (another
	// uploader that was sent away with the same report came first). Whether the
	// name is free afterwards is not judged: an uploader that was already building
	// the week's report may put its own there.
	if !m.faultsOn {
		for _, r := range s.Requests[reqsBefore:] {
			if r.Status < 400 || r.Status >= 500 || r.Task == nil || !r.Task.Done || r.Proc.Killed {
				continue
			}
			week := r.URL[strings.LastIndexByte(r.URL, '/')+1:]
			tried := false
			for _, fc := range s.CallLog[callsBefore:] {
				if fc.Task == r.Task && fc.Step >= r.Step && (fc.Op == "remove" || fc.Op == "removeall" || fc.Op == "rename") {
					if w, kind := weekOfReportPath(fc.Path); w == week && kind == "ready" {
						tried = true
						break
					}
				}
			}
			if !tried {
				m.fail("rejected-report-kept", "uploader task %s got status %d for week %s and ran to its end without discarding the report", r.Task.Name, r.Status, week)
				return
			}
		}
	}
	after := dirState(m.loc, m.upl)
	m.checkRound(before, after, callsBefore, reqsBefore, tasks)
}

var _ = sort.Strings

// abstractState folds the directory's shape (which kinds of files exist per week:
// counter files, ready / local / uploaded reports, locks, staging files) and the
// number of live uploaders into a hash: the "distinct states reached" measure.
func (m *machine) abstractState() {
	if m.s.FsCalls == m.lastFsState {
		return
	}
	m.lastFsState = m.s.FsCalls
	h := uint64(14695981039346656037)
	mix := func(x string) {
		for i := 0; i < len(x); i++ {
			h = (h ^ uint64(x[i])) * 1099511628211
		}
		h = (h ^ 0xff) * 1099511628211
	}
	for _, dir := range []string{m.loc, m.upl} {
		ents, _ := os.ReadDir(dir)
		for _, e := range ents {
			n := e.Name()
			switch {
			case strings.HasSuffix(n, ".v1.count"):
				mix("count")
			case strings.HasSuffix(n, ".lock"):
				mix("lock")
			case strings.Contains(n, ".tmp"):
				mix("staging")
			case strings.HasPrefix(n, "local.") && strings.HasSuffix(n, ".json"):
				mix("local-report")
			case strings.HasSuffix(n, ".json") && dir == m.upl:
				mix("uploaded")
			case strings.HasSuffix(n, ".json"):
				mix("ready")
			}
		}
		mix("|")
	}
	mix(fmt.Sprint(len(m.s.Live())))
	m.c.StateHs[h] = true
}
