package main

// C11, viewer side: for generated configurations and counter files, what the
// local viewer says (active flags per metadata item, per counter and per stack,
// and the summary text) must agree with the documented configuration semantics,
// which is also what the uploader's filter is checked against (C01) and what the
// server enforces (C11 server family).

import (
	"encoding/json"
	"fmt"
	"html"
	"net/http"
	"net/http/httptest"
	"os"
	"reflect"
	"regexp"
	"testing/fstest"
	"path/filepath"
	"sort"
	"strings"
	"time"

	"golang.org/x/telemetry/cmd/gotelemetry/internal/view"
	"golang.org/x/telemetry/internal/config"
	"golang.org/x/telemetry/internal/counter"
	"golang.org/x/telemetry/internal/telemetry"
	"golang.org/x/telemetry/internal/verifsim/hlib"
	"golang.org/x/telemetry/internal/verifsim/mgen"
	"golang.org/x/telemetry/internal/verifsim/ref/refformat"
	"golang.org/x/telemetry/internal/verifsim/ref/refreport"
	"golang.org/x/telemetry/internal/verifsim/ref/refstack"
	"golang.org/x/telemetry/internal/verifsim/simrt"
)

var codeItem = regexp.MustCompile(`<code>.*?</code>`)

func scenarioViewer(c *hlib.RunCtx) *hlib.Violation {
	t := c.Tape
	start := time.Date(2024, 6, 1, 12, 0, 0, 0, time.UTC)
	s := simrt.New(t, c.Dir, start)
	s.KeepTrace = true
	c.Sim = s
	simrt.Attach(s)
	defer simrt.Detach()
	var viol *hlib.Violation
	fail := func(inv, format string, args ...any) {
		if viol == nil {
			viol = hlib.Violationf("C11", inv, format, args...)
			s.Logf("VIOLATION", "%s: %s", inv, viol.Message)
		}
	}
	cfg := mgen.GenConfig(t, "v0.1.0")
	rcfg := config.NewConfig(cfg.Real)
	loc := filepath.Join(c.Dir, "local")
	n := 2 + t.Draw(5)
	for i := 0; i < n; i++ {
		mgen.WriteCounterFile(t, s, loc, start.Add(-time.Duration(1+t.Draw(20))*24*time.Hour), 1+t.Draw(7), 0)
	}
	c.Note("nontrivial")
	ents, _ := os.ReadDir(loc)
	var sample []string
	for _, e := range ents {
		if !strings.HasSuffix(e.Name(), ".v1.count") || viol != nil {
			continue
		}
		data, err := os.ReadFile(filepath.Join(loc, e.Name()))
		if err != nil {
			continue
		}
		pf, err := counter.Parse(e.Name(), data)
		if err != nil {
			continue
		}
		d, err := refformat.Decode(data)
		if err != nil {
			continue
		}
		v := view.VerifNewCounterFile(e.Name(), pf, rcfg)
		prog, ver, gov, goos, goarch := d.Meta["Program"], d.Meta["Version"], d.Meta["GoVersion"], d.Meta["GOOS"], d.Meta["GOARCH"]
		wantMeta := map[string]bool{
			"Program": cfg.Ref.HasProgram(prog), "Version": cfg.Ref.HasVersion(prog, ver), "GOOS": cfg.Ref.HasGOOS(goos),
			"GOARCH": cfg.Ref.HasGOARCH(goarch), "GoVersion": cfg.Ref.HasGoVersion(gov),
		}
		for k, w := range wantMeta {
			if v.ActiveMeta[k] != w {
				fail("viewer-meta", "%s: the viewer shows %s=%q as active=%v, the configuration says %v", e.Name(), k, d.Meta[k], v.ActiveMeta[k], w)
			}
		}
		buildOK := wantMeta["Program"] && wantMeta["Version"] && wantMeta["GOOS"] && wantMeta["GOARCH"] && wantMeta["GoVersion"]
		saysNothing := strings.Contains(v.Summary, "No data from this set would be uploaded")
		if saysNothing == buildOK {
			fail("viewer-summary-set", "%s: build approved=%v but the viewer's summary is %q", e.Name(), buildOK, v.Summary)
		}
		var excluded []string
		maybe := map[string]bool{} // names the viewer may describe either way
		for raw := range d.Counts {
			name := refstack.Expand(raw)
			if strings.Contains(name, "\n") {
				rate, ok := cfg.Ref.StackRate(prog, name)
				act, present := v.Stacks[name]
				if ok && rate < 1 {
					// listed with a rate below 1: whether a given report carries it depends on
					// that report's X (never, for rate 0); either description is right
					maybe[name[:strings.Index(name, "\n")]] = true
					continue
				}
				if !present {
					fail("viewer-stack-missing", "%s: stack %q is not listed by the viewer", e.Name(), strings.ReplaceAll(name, "\n", "\\n"))
				} else if act != ok {
					fail("viewer-stack", "%s: the viewer shows stack %q as active=%v, the uploader's rule (first line listed for the program) says %v", e.Name(), strings.ReplaceAll(name, "\n", "\\n"), act, ok)
				}
				if !ok {
					excluded = append(excluded, name[:strings.Index(name, "\n")])
				}
			} else {
				rate, ok := cfg.Ref.CounterRate(prog, name)
				act, present := v.Counts[name]
				if ok && rate < 1 {
					maybe[name] = true
					continue
				}
				if !present {
					fail("viewer-counter-missing", "%s: counter %q is not listed by the viewer", e.Name(), name)
				} else if act != ok {
					fail("viewer-counter", "%s: the viewer shows counter %q as active=%v, the configuration says %v", e.Name(), name, act, ok)
				}
				if !ok {
					excluded = append(excluded, name)
				}
			}
		}
		if buildOK && viol == nil {
			// the summary names exactly the counters that would be excluded
			for _, x := range excluded {
				if !strings.Contains(v.Summary, "<code>"+html.EscapeString(x)+"</code>") {
					fail("viewer-summary-counters", "%s: %q would be excluded from a report but the viewer's summary does not say so: %q", e.Name(), x, v.Summary)
				}
			}
			if len(excluded) == 0 && len(maybe) == 0 && strings.Contains(v.Summary, "would be excluded") {
				fail("viewer-summary-counters", "%s: every counter would be uploaded but the viewer's summary says %q", e.Name(), v.Summary)
			}
			for _, part := range strings.Split(v.Summary, "<code>")[1:] {
				nm := html.UnescapeString(part[:strings.Index(part, "</code>")])
				found := false
				for _, x := range excluded {
					if x == nm {
						found = true
					}
				}
				if !found && !maybe[nm] && strings.Contains(v.Summary, "Unregistered counter") {
					fail("viewer-summary-counters", "%s: the viewer's summary lists %q as excluded, but the uploader would send it", e.Name(), nm)
				}
			}
		}
		sort.Strings(excluded) // map order must not reach the event log
		sample = append(sample, fmt.Sprintf("%s: approved=%v excluded=%d", e.Name(), buildOK, len(excluded)))
		s.Logf("file", "%s approved=%v excluded=%v", e.Name(), buildOK, excluded)
	}
	// The viewer's page of local weekly reports: one summary per program of a
	// report. A report as the uploader writes it for local use (everything the
	// week's files hold, build by build) is described the same way: the build, or
	// each counter and stack that the uploader would leave out, is named.
	var all []*refreport.CountFile
	for _, e := range ents {
		data, _ := os.ReadFile(filepath.Join(loc, e.Name()))
		if d, err := refformat.Decode(data); err == nil {
			all = append(all, &refreport.CountFile{Path: e.Name(), Meta: d.Meta, Counts: d.Counts})
		}
	}
	if agg := refreport.Aggregate(all); viol == nil && len(agg.Programs) > 0 {
		rep := &telemetry.Report{Week: "2024-06-01", X: 0.25, Config: "v0.1.0"}
		for _, p := range agg.Programs {
			rep.Programs = append(rep.Programs, &telemetry.ProgramReport{Program: p.Build.Program, Version: p.Build.Version, GoVersion: p.Build.GoVersion,
				GOOS: p.Build.GOOS, GOARCH: p.Build.GOARCH, Counters: p.Counters, Stacks: p.Stacks})
		}
		sums, err := view.VerifNewTelemetryReport(rep, rcfg)
		if err != nil || len(sums) != len(agg.Programs) {
			fail("viewer-report", "the viewer does not show the local report: %v (%d summaries for %d programs)", err, len(sums), len(agg.Programs))
		}
		for i, p := range agg.Programs {
			if viol != nil {
				break
			}
			b := p.Build
			buildOK := cfg.Ref.HasProgram(b.Program) && cfg.Ref.HasVersion(b.Program, b.Version) && cfg.Ref.HasGOOS(b.GOOS) && cfg.Ref.HasGOARCH(b.GOARCH) && cfg.Ref.HasGoVersion(b.GoVersion)
			if strings.Contains(sums[i], "No data from this set would be uploaded") == buildOK {
				fail("viewer-report-set", "local report, build %v: approved=%v but the viewer's summary is %q", b, buildOK, sums[i])
			}
			if !buildOK {
				continue
			}
			var excluded []string
			lowRate := false
			for n := range p.Counters {
				if r, ok := cfg.Ref.CounterRate(b.Program, n); !ok {
					excluded = append(excluded, n)
				} else if r < 1 {
					lowRate = true
				}
			}
			for n := range p.Stacks {
				if r, ok := cfg.Ref.StackRate(b.Program, n); !ok {
					excluded = append(excluded, n[:strings.Index(n, "\n")])
				} else if r < 1 {
					lowRate = true
				}
			}
			sort.Strings(excluded)
			for _, x := range excluded {
				if !strings.Contains(sums[i], "<code>"+html.EscapeString(x)+"</code>") {
					fail("viewer-report-counters", "local report, build %v: %q would be excluded from an upload but the viewer's summary does not say so: %q", b, x, sums[i])
				}
			}
			if len(excluded) == 0 && !lowRate && strings.Contains(sums[i], "would be excluded") {
				fail("viewer-report-counters", "local report, build %v: everything would be uploaded but the viewer's summary says %q", b, sums[i])
			}
		}
		s.Probe("viewer-report-judged")
	}
	// The pages of one viewer process. What a page calls excluded depends on the
	// request (its ?config= value), the configuration as it is on disk at that
	// moment and the directory - not on the pages served before. Each page of a
	// long-lived handler is compared with the page a handler made for this one
	// request gives (the flags and summaries of every file and report, printed by
	// a template of the harness; the lines are compared as a set).
	if viol == nil && t.Bool(1, 2) {
		telemetry.Default = telemetry.NewDir(c.Dir)
		cfgPath := filepath.Join(c.Dir, "viewer-config.json")
		writeCfg := func(cv *mgen.CfgVersion) {
			js, _ := json.Marshal(cv.Real)
			os.WriteFile(cfgPath, js, 0666)
		}
		writeCfg(cfg)
		tmpl := fstest.MapFS{"index.html": &fstest.MapFile{Data: []byte(`{{range .Files}}{{$id := .ID}}FILE {{$id}} meta={{.ActiveMeta}} summary={{.Summary}}
{{range .Counts}}FILE {{$id}} count {{printf "%q" .Name}} active={{.Active}}
{{end}}{{range .Stacks}}FILE {{$id}} stack {{printf "%q" .Name}} {{printf "%q" .Trace}} active={{.Active}}
{{end}}{{end}}{{range .Reports}}{{$id := .ID}}{{range .Programs}}REPORT {{$id}} {{.Program}} {{.Version}} {{.GoVersion}} {{.GOOS}} {{.GOARCH}} summary={{.Summary}}
{{end}}{{end}}`)}}
		get := func(h http.Handler, query string) (int, []string) {
			rec := httptest.NewRecorder()
			h.ServeHTTP(rec, httptest.NewRequest("GET", "/"+query, nil))
			lines := strings.Split(rec.Body.String(), "\n")
			for i, l := range lines {
				// (the names inside a summary come in no particular order)
				names := codeItem.FindAllString(l, -1)
				sort.Strings(names)
				lines[i] = codeItem.ReplaceAllString(l, "_") + " | " + strings.Join(names, " ")
			}
			sort.Strings(lines)
			return rec.Code, lines
		}
		long := view.VerifIndexHandler(cfgPath, tmpl)
		npages := 2 + t.Draw(3)
		for k := 0; k < npages && viol == nil; k++ {
			// between pages the configuration on disk may change: a new version, a
			// file that cannot be read for a while, the old one back
			switch t.Biased(4, 1, 2) {
			case 1:
				writeCfg(mgen.GenConfig(t, fmt.Sprintf("v0.%d.0", k+2)))
				s.Probe("viewer-config-changed-between-pages")
			case 2:
				os.Remove(cfgPath)
				s.Probe("viewer-config-unreadable")
			case 3:
				writeCfg(cfg)
			}
			query := []string{"", "?config=latest", "?config=empty", "?config=v0.1.0", "?config="}[t.Draw(5)]
			code, got := get(long, query)
			wcode, want := get(view.VerifIndexHandler(cfgPath, tmpl), query)
			s.Logf("page", "%d %q -> %d (%d lines)", k, query, code, len(got))
			if code != wcode || !reflect.DeepEqual(got, want) {
				diff := ""
				for i := 0; i < len(got) && i < len(want); i++ {
					if got[i] != want[i] {
						diff = fmt.Sprintf("%q, a viewer started for this page says %q", got[i], want[i])
						break
					}
				}
				fail("viewer-page-depends-on-earlier-pages", "page %d (%q) of a running viewer: status %d, %d lines; a viewer started for this page alone: status %d, %d lines; first difference: %s", k+1, query, code, len(got), wcode, len(want), diff)
			}
			s.Probe("viewer-page-compared")
		}
	}
	c.Sample = map[string]any{"files": sample}
	return viol
}
