package main

// This file replaces godev/cmd/telemetrygodev/main_test.go in the simulation
// build only: the original TestMain skips every test unless `go list` works from
// the current directory, which is not the case for a harness binary started in
// a scratch directory.
