package main

// Harness H3: the server world. The real upload handler behind its real
// middleware chain (log, timeout, request-size limit, panic recovery) and a real
// file-system bucket, fed by (C12) an adversarial client whose request stream and
// body-stream faults come from the tape, checked against a map object store and
// the reference configuration semantics, and by (C11) the real uploader whose
// every produced body must be accepted, and whose bodies, changed in one field to
// a near-miss, must be rejected exactly when the reference semantics say so.

import (
	"bytes"
	"context"
	"crypto/rand"
	"crypto/sha256"
	"encoding/binary"
	"encoding/json"
	"errors"
	"fmt"
	"io"
	"log"
	"math"
	"net/http"
	"net/http/httptest"
	"os"
	"path/filepath"
	"reflect"
	"runtime"
	"sort"
	"strings"
	"testing"
	"time"

	"golang.org/x/exp/slog"
	"golang.org/x/telemetry/godev/internal/middleware"
	"golang.org/x/telemetry/godev/internal/storage"
	tconfig "golang.org/x/telemetry/internal/config"
	"golang.org/x/telemetry/internal/telemetry"
	"golang.org/x/telemetry/internal/upload"
	"golang.org/x/telemetry/internal/verifsim/hlib"
	"golang.org/x/telemetry/internal/verifsim/mgen"
	"golang.org/x/telemetry/internal/verifsim/ref/refcal"
	"golang.org/x/telemetry/internal/verifsim/ref/refcfg"
	"golang.org/x/telemetry/internal/verifsim/ref/refformat"
	"golang.org/x/telemetry/internal/verifsim/ref/refreport"
	"golang.org/x/telemetry/internal/verifsim/simrt"
)

func TestVerifSim(t *testing.T) {
	devnull, _ := os.OpenFile(os.DevNull, os.O_WRONLY, 0)
	os.Stderr = devnull
	os.Stdout = os.Stdout
	log.SetOutput(io.Discard)
	slog.SetDefault(slog.New(slog.NewTextHandler(io.Discard, nil)))
	// One processor: the request that is served while another one is stopped runs
	// on the same P, so that per-P caches (sync.Pool) behave the same in every
	// execution of a tape. Parallelism comes from the driver's worker processes.
	runtime.GOMAXPROCS(1)
	hlib.Main("h3", map[string]hlib.Scenario{"C12": scenarioC12, "C11": scenarioC11})
}

const maxRequestBytes = 100 * 1024

// parkBucket is the upload bucket with one seam: the request that stores the
// object `name` stops just before the storage call `at` (open, write or close)
// until it is released. The harness serves another request meanwhile: two
// uploads whose handling overlaps, in an order the tape decides.
type parkBucket struct {
	storage.BucketHandle
	at, name string
	used     bool
	parked   chan struct{}
	release  chan struct{}
}

func (b *parkBucket) arm(at, name string) {
	b.at, b.name, b.used = at, name, false
	b.parked, b.release = make(chan struct{}), make(chan struct{})
}

func (b *parkBucket) stop(at, name string) {
	if b.at == at && b.name == name && !b.used {
		b.used = true
		close(b.parked)
		<-b.release
	}
}

func (b *parkBucket) Object(name string) storage.ObjectHandle {
	return &parkObject{b.BucketHandle.Object(name), b, name}
}

type parkObject struct {
	storage.ObjectHandle
	b    *parkBucket
	name string
}

func (o *parkObject) NewWriter(ctx context.Context) (io.WriteCloser, error) {
	o.b.stop("open", o.name)
	w, err := o.ObjectHandle.NewWriter(ctx)
	if err != nil {
		return nil, err
	}
	return &parkWriter{w, o}, nil
}

type parkWriter struct {
	io.WriteCloser
	o *parkObject
}

func (w *parkWriter) Write(p []byte) (int, error) {
	w.o.b.stop("write", w.o.name)
	return w.WriteCloser.Write(p)
}

func (w *parkWriter) Close() error {
	w.o.b.stop("close", w.o.name)
	return w.WriteCloser.Close()
}

var theBucket *parkBucket

func newServer(dir string, cfg *mgen.CfgVersion) (http.Handler, string) {
	ctx := context.Background()
	fsb, err := storage.NewFSBucket(ctx, dir, "uploaded")
	if err != nil {
		panic(err)
	}
	bucket := &parkBucket{BucketHandle: fsb}
	theBucket = bucket
	ucfg := tconfig.NewConfig(cfg.Real)
	mux := http.NewServeMux()
	mux.Handle("/upload/", handleUpload(ucfg, bucket))
	logger := slog.New(slog.NewTextHandler(io.Discard, nil))
	mw := middleware.Chain(
		middleware.Log(logger),
		middleware.Timeout(10*time.Minute),
		middleware.RequestSize(maxRequestBytes),
		middleware.Recover(),
	)
	return mw(mux), filepath.Join(dir, "uploaded")
}

// ---------------------------------------------------------------- report model

type progRep struct {
	Program   string
	Version   string
	GoVersion string
	GOOS      string
	GOARCH    string
	Counters  map[string]int64
	Stacks    map[string]int64
}

type report struct {
	Week     string
	LastWeek string
	X        float64
	Programs []*progRep
	Config   string
}

func validDate(s string) bool {
	if len(s) != 10 || s[4] != '-' || s[7] != '-' {
		return false
	}
	for i, c := range s {
		if i == 4 || i == 7 {
			continue
		}
		if c < '0' || c > '9' {
			return false
		}
	}
	y, m, d := atoi(s[0:4]), atoi(s[5:7]), atoi(s[8:10])
	if m < 1 || m > 12 || d < 1 {
		return false
	}
	yy, mm, dd := refcal.CivilFromDays(refcal.DaysFromCivil(y, m, d))
	return yy == y && mm == m && dd == d
}

func atoi(s string) int {
	n := 0
	for _, c := range s {
		n = n*10 + int(c-'0')
	}
	return n
}

var validSemver = []string{"v0.1.0", "v1.2.3", "v0.25.0-pre.1", "v1.0.0+meta", "v10.20.30"}
var invalidSemver = []string{"", "1.2.3", "vx", "v1.2.3.4", "latest", "v-1", "v1.2.3 ", "V1.0.0", "v1.0.0-" + strings.Repeat("界", 30), "v１.０.０"}

// approved reports whether every item of the report is inside the configuration.
func approved(r *report, cfg *refcfg.Config) (bool, string) {
	for _, p := range r.Programs {
		if !cfg.HasGOARCH(p.GOARCH) || !cfg.HasGOOS(p.GOOS) || !cfg.HasGoVersion(p.GoVersion) || !cfg.HasVersion(p.Program, p.Version) {
			return false, fmt.Sprintf("program build %s@%s %s %s/%s", p.Program, p.Version, p.GoVersion, p.GOOS, p.GOARCH)
		}
		for c := range p.Counters {
			if _, ok := cfg.CounterRate(p.Program, c); !ok {
				return false, "counter " + c
			}
		}
		for s := range p.Stacks {
			if _, ok := cfg.StackRate(p.Program, s); !ok {
				return false, "stack " + s
			}
		}
	}
	return true, ""
}

// genReport draws a report that is approved by cfg (when cfg approves anything).
func genReport(t *simrt.Tape, cfg *refcfg.Config, big bool) *report {
	day := refcal.DaysFromCivil(1990, 1, 1) + t.Draw(25567)
	r := &report{Week: refcal.Date(day), Config: validSemver[t.Draw(len(validSemver))]}
	xs := []float64{0.25, 0.5, mgen.Dyadic(1), 1, 0.999999, 1e-300, 5e-324, 1e308, -1, 123456789.125}
	r.X = xs[t.Biased(len(xs), 1, 2)]
	if t.Bool(1, 3) {
		r.LastWeek = refcal.Date(day - 7)
	}
	np := t.Draw(3)
	for i := 0; i < np && len(cfg.Programs) > 0; i++ {
		cp := cfg.Programs[t.Draw(len(cfg.Programs))]
		if len(cp.Versions) == 0 || len(cfg.GoVersion) == 0 || len(cfg.GOOS) == 0 || len(cfg.GOARCH) == 0 {
			continue
		}
		p := &progRep{Program: cp.Name, Version: cp.Versions[t.Draw(len(cp.Versions))], GoVersion: cfg.GoVersion[t.Draw(len(cfg.GoVersion))],
			GOOS: cfg.GOOS[t.Draw(len(cfg.GOOS))], GOARCH: cfg.GOARCH[t.Draw(len(cfg.GOARCH))], Counters: map[string]int64{}, Stacks: map[string]int64{}}
		for _, c := range cp.Counters {
			for _, e := range refcfg.Expand(c.Name) {
				if t.Bool(1, 2) {
					p.Counters[e] = int64(1 + t.Draw(1000))
				}
			}
		}
		for _, s := range cp.Stacks {
			if t.Bool(1, 2) {
				frames := "\nmain.main:+1,+0x10"
				if big {
					frames = "\n" + strings.Repeat("example.com/very/long/import/path.Function:+12,+0x1234\n", 300+t.Draw(1400))
				}
				p.Stacks[s.Name+frames] = int64(1 + t.Draw(50))
			}
		}
		r.Programs = append(r.Programs, p)
	}
	return r
}

// listTree lists every regular file under dir (relative names).
// treeHash lists the files below dir with a hash of their content.
func treeHash(dir string) map[string][32]byte {
	out := map[string][32]byte{}
	filepath.Walk(dir, func(p string, info os.FileInfo, err error) error {
		if err == nil && !info.IsDir() {
			rel, _ := filepath.Rel(dir, p)
			data, _ := os.ReadFile(p)
			out[rel] = sha256.Sum256(data)
		}
		return nil
	})
	return out
}

func listTree(dir string) []string {
	var out []string
	filepath.Walk(dir, func(p string, info os.FileInfo, err error) error {
		if err == nil && !info.IsDir() {
			rel, _ := filepath.Rel(dir, p)
			out = append(out, rel)
		}
		return nil
	})
	sort.Strings(out)
	return out
}

// faultyReader delivers the body through short reads and may fail or end early.
type faultyReader struct {
	data  []byte
	chunk int
	cutAt int // -1: none; otherwise fail (err != nil) or end (EOF) at this offset
	err   error
	off   int
}

func (r *faultyReader) Read(p []byte) (int, error) {
	if r.cutAt >= 0 && r.off >= r.cutAt {
		if r.err != nil {
			return 0, r.err
		}
		return 0, io.EOF
	}
	if r.off >= len(r.data) {
		return 0, io.EOF
	}
	n := r.chunk
	if n <= 0 || n > len(p) {
		n = len(p)
	}
	end := r.off + n
	if end > len(r.data) {
		end = len(r.data)
	}
	if r.cutAt >= 0 && end > r.cutAt {
		end = r.cutAt
	}
	copy(p, r.data[r.off:end])
	n = end - r.off
	r.off = end
	return n, nil
}

func scenarioC12(c *hlib.RunCtx) *hlib.Violation {
	t := c.Tape
	s := simrt.New(t, c.Dir, time.Date(2024, 1, 1, 0, 0, 0, 0, time.UTC))
	s.KeepTrace = true
	c.Sim = s
	simrt.Attach(s)
	defer simrt.Detach()
	var viol *hlib.Violation
	fail := func(inv, format string, args ...any) {
		if viol == nil {
			viol = hlib.Violationf("C12", inv, format, args...)
			s.Logf("VIOLATION", "%s: %s", inv, viol.Message)
		}
	}
	cfg := mgen.GenConfig(t, "v0.1.0")
	storeDir := filepath.Join(c.Dir, "storage")
	os.MkdirAll(storeDir, 0777)
	// a file next to the bucket: nothing may ever touch it
	os.WriteFile(filepath.Join(c.Dir, "outside.txt"), []byte("outside"), 0666)
	h, bucketDir := newServer(storeDir, cfg)
	model := map[string]*report{} // object name -> report
	var accepted []*report
	nreq := 3 + t.Draw(12)
	var cases []string
	judged := 0 // a run is non-trivial when at least one of its requests was judged
	defer func() {
		if judged > 0 {
			c.Note("nontrivial")
		}
	}()
	for i := 0; i < nreq && viol == nil; i++ {
		method := "POST"
		if t.Bool(1, 6) {
			// (method names are case-sensitive: "post" is not POST)
			method = []string{"GET", "PUT", "DELETE", "HEAD", "PATCH", "OPTIONS", "post", "Post", "pOST", "POSTS", "POS"}[t.Draw(11)]
		}
		big := t.Bool(1, 8)
		r := genReport(t, cfg.Ref, big)
		// the same week and X again (the same object name), with other content:
		// what is stored afterwards is the later report and nothing of the earlier
		if len(accepted) > 0 && t.Bool(1, 5) {
			prev := accepted[t.Draw(len(accepted))]
			r.Week, r.X = prev.Week, prev.X
			if t.Bool(1, 2) && len(r.Programs) > 1 {
				r.Programs = r.Programs[:1]
			}
			s.Probe("same-week-and-x-again")
		}
		wantValid := true
		why := "valid"
		var body []byte
		kind := t.Biased(12, 1, 2)
		if kind >= 10 {
			kind = 8 + kind%2
		}
		switch kind {
		case 1:
			r.Week = []string{"", "2024-1-1", "2024-02-30", "../x", "2024-01-01/../../x", "2024-01-01T00:00:00Z", "20240101", "2024-13-01", "week",
				// text outside ASCII: long in bytes, short in characters, and digits that are not 0-9
				strings.Repeat("世", 30), "２０２４-０１-０１", strings.Repeat("é", 45) + "2024-01-01"}[t.Draw(12)]
			wantValid, why = false, "week "+r.Week
		case 2:
			r.Config = invalidSemver[t.Draw(len(invalidSemver))]
			wantValid, why = false, "config "+r.Config
		case 3:
			r.X = 0
			wantValid, why = false, "X=0"
		case 4: // one unapproved item
			if len(r.Programs) > 0 {
				p := r.Programs[t.Draw(len(r.Programs))]
				switch t.Draw(13) {
				case 11:
					p.Program += "/" + strings.Repeat("界", 30) // names outside ASCII, long in bytes and short in characters
				case 12:
					p.Counters["plain"+strings.Repeat("ü", 40+t.Draw(20))] = 1
				case 10:
					// an approved counter's name followed by a newline and more
					var keys []string
					for k := range p.Counters {
						keys = append(keys, k)
					}
					sort.Strings(keys)
					if len(keys) > 0 {
						p.Counters[keys[0]+"\nsecret/path:12"] = 1
					} else {
						p.Counters["plain\nsecret/path:12"] = 1
					}
				case 7:
					p.Counters["crash/crash\nmain.main:+1,+0x1"] = 1 // a stack-shaped key among the counters
				case 8:
					p.Stacks["\nmain.main:+1,+0x1"] = 1 // a stack whose first line is empty
				case 9:
					// values are not the server's business: zero, negative, the largest
					for k := range p.Counters {
						p.Counters[k] = []int64{0, -1, 1<<63 - 1, -1 << 63}[t.Draw(4)]
					}
				case 0:
					p.Program += "x"
				case 1:
					p.Version += ".1"
				case 2:
					p.GoVersion = "go1.99"
				case 3:
					p.GOOS = "plan9"
				case 4:
					p.GOARCH = "mips"
				case 5:
					p.Counters[mgen.LocalCounterPool[t.Draw(len(mgen.LocalCounterPool))]+"?"] = 1
				case 6:
					p.Stacks["unlisted\nmain.main:+1,+0x1"] = 1
				}
				if ok, item := approved(r, cfg.Ref); !ok {
					wantValid, why = false, "unapproved "+item
				}
			}
		case 5: // arbitrary bytes
			n := t.Draw(200)
			body = make([]byte, n)
			rr := simrt.NewRand(uint64(t.Draw(1 << 20)))
			for j := range body {
				body[j] = byte(rr.Intn(256))
			}
			wantValid, why = false, "arbitrary bytes"
		case 6: // well-formed JSON of the wrong shape
			body = []byte([]string{`[]`, `"report"`, `{"Week":5}`, `{"X":"0.5"}`, `{"Programs":{}}`, `null`, `{"Week":"2024-01-01","X":0.5,"Config":"v1.0.0","Programs":[{"Counters":{"a":"b"}}]}`,
				`{"Week":"2024-01-01","X":0.5,"Config":"v1.0.0","Programs":[null]}`, `{"Week":"2024-01-01","X":0.5,"Config":"v1.0.0","Programs":[{"Program":"example.com/gopls","Counters":null,"Stacks":null},null]}`,
				`{"Week":"2024-01-01","X":1e999,"Config":"v1.0.0"}`, `{"Week":"2024-01-01","X":0.5,"Config":"v1.0.0","Programs":[[]]}`}[t.Draw(11)])
			wantValid, why = false, "wrong shape "+string(body)
			if string(body) == "null" {
				wantValid, why = false, "null" // decodes to the zero report: week invalid
			}
		case 8, 9: // a name that is approved for one program, carried by another program of the same report
			if pa, pb, name, isStack := crossProgramName(t, cfg.Ref); pa != nil {
				r.Programs = nil
				mk := func(cp *refcfg.Program) *progRep {
					return &progRep{Program: cp.Name, Version: cp.Versions[0], GoVersion: cfg.Ref.GoVersion[0], GOOS: cfg.Ref.GOOS[0], GOARCH: cfg.Ref.GOARCH[0],
						Counters: map[string]int64{}, Stacks: map[string]int64{}}
				}
				a, b := mk(pa), mk(pb)
				if isStack {
					a.Stacks[name+"\nmain.main:+1,+0x1"] = 2
					b.Stacks[name+"\nmain.main:+1,+0x1"] = 3
				} else {
					a.Counters[name] = 2
					b.Counters[name] = 3
				}
				r.Programs = []*progRep{a, b}
				if kind == 9 {
					r.Programs = []*progRep{b, a}
				}
				if ok, item := approved(r, cfg.Ref); !ok {
					wantValid, why = false, "unapproved (listed for another program) "+item
				}
			}
		case 7: // near-miss local names, unchanged otherwise
			if len(r.Programs) > 0 {
				p := r.Programs[0]
				p.Counters[mgen.LocalCounterPool[t.Draw(len(mgen.LocalCounterPool))]] = 3
				if ok, item := approved(r, cfg.Ref); !ok {
					wantValid, why = false, "unapproved "+item
				}
			}
		}
		// decorated: 1 = fields the report type does not have (must not be stored),
		// 2/3 = bytes after the JSON value (whether such a body is accepted is not
		// judged; what is stored if it is, is)
		decorated := 0
		if body == nil {
			body, _ = json.Marshal(r)
			if len(body) > 2 && body[0] == '{' && t.Bool(1, 6) {
				decorated = 1 + t.Draw(5)
				switch decorated {
				case 4: // the value is small and complete, the body is over the limit
					body = append(body, []byte(strings.Repeat(" \n", maxRequestBytes/2+10))...)
				case 5: // the same with the padding in front
					body = append([]byte(strings.Repeat("\n ", maxRequestBytes/2+10)), body...)
				case 1:
					body = []byte(`{"Hostname":"build-17","Cwd":"/home/u",` + string(body[1:]))
					body = []byte(strings.Replace(string(body), `"Programs":[{`, `"Programs":[{"Path":"/usr/local/bin/x",`, 1))
				case 2:
					body = append(body, []byte("\n"+`{"Week":"2024-01-01","X":0.25,"Config":"v1.0.0","Programs":[{"Program":"evil.example/prog","Counters":{"secret":1}}]}`)...)
				case 3:
					body = append(body, []byte(" trailing bytes")...)
				}
			}
		}
		truncated := false
		trunc := t.Biased(5, 3, 4)
		if decorated >= 2 {
			trunc = 0 // a cut inside the trailing bytes would leave the first value whole
		}
		switch trunc {
		case 1: // truncated JSON
			if len(body) > 2 {
				body = body[:1+t.Draw(len(body)-1)]
				truncated = true
			}
		case 2: // oversize: pad with a huge unapproved-looking but ignored field? no: pad inside a string so the JSON stays one value
			// (padding is white space between the opening brace and the first key:
			// it changes the size of the body and nothing any decoder could object to)
			pad := strings.Repeat(" ", maxRequestBytes)
			if len(body) > 1 && body[0] == '{' && body[1] != '}' {
				body = []byte("{" + pad + string(body[1:]))
			} else {
				body = []byte("{" + pad + `"LastWeek":""}`)
			}
			wantValid, why = false, "oversize body"
		case 3, 4: // one byte below the size limit, exactly at it, one byte above it
			d := t.Draw(3) - 1
			if pad := maxRequestBytes + d - len(body); pad >= 0 && len(body) > 1 && body[0] == '{' && body[1] != '}' {
				body = []byte("{" + strings.Repeat(" ", pad) + string(body[1:]))
				s.Probe(fmt.Sprintf("body-at-limit%+d", d))
			}
		}
		if truncated {
			var probe any
			if json.Unmarshal(body, &probe) != nil {
				wantValid, why = false, "truncated JSON"
			} else {
				continue // a prefix that happens to be complete JSON: not judged
			}
		}
		if len(body) > maxRequestBytes {
			wantValid, why = false, "oversize body"
		}
		// body stream
		fr := &faultyReader{data: body, cutAt: -1}
		declare := t.Bool(1, 2)
		streamFault := t.Biased(4, 2, 3)
		if decorated >= 2 && streamFault >= 2 {
			streamFault = 1
		}
		switch streamFault {
		case 1:
			fr.chunk = 1 + t.Draw(7)
			if len(body) > 16<<10 {
				fr.chunk *= 512 // short reads of a few bytes over a 100 KiB body cost more than they find
			}
		case 2:
			if len(body) > 1 {
				fr.cutAt = t.Draw(len(body))
				fr.err = errors.New("client connection reset")
				wantValid, why = false, "body stream error"
			}
		case 3:
			if len(body) > 1 {
				fr.cutAt = t.Draw(len(body))
				wantValid, why = false, "body ends early"
				var probe any
				if json.Unmarshal(body[:fr.cutAt], &probe) == nil {
					continue // the delivered prefix is complete JSON: not judged
				}
			}
		}
		if method != "POST" {
			wantValid, why = false, "method "+method
		}
		before := listTree(c.Dir)
		beforeH := treeHash(c.Dir)
		// The path is not part of the property's quantifier (methods and bodies):
		// a clean path under the route, as the uploader builds it.
		urlWeek := r.Week
		if !validDate(urlWeek) {
			urlWeek = "2024-01-01"
		}
		// The object is named by the report's week, not by the request path: a
		// client may post to another week's path, or to no week at all.
		switch t.Biased(5, 3, 4) {
		case 1:
			urlWeek = "2023-12-25"
		case 2:
			urlWeek = "x/y"
		case 3:
			urlWeek = ""
		case 4:
			urlWeek = "2024-01-01/extra"
		}
		req := httptest.NewRequest(method, "/upload/"+urlWeek, fr)
		req.ContentLength = -1
		if declare && fr.cutAt < 0 {
			req.ContentLength = int64(len(body)) // a client that declares the length
		}
		rec := httptest.NewRecorder()
		h.ServeHTTP(rec, req)
		judged++
		after := listTree(c.Dir)
		cases = append(cases, fmt.Sprintf("%s %s (%d bytes) -> %d", method, why, len(body), rec.Code))
		s.Logf("req", "%s %s len=%d -> %d", method, why, len(body), rec.Code)
		if rec.Code >= 500 {
			fail("server-error", "request %q (%s) was answered %d", why, method, rec.Code)
			break
		}
		if wantValid && decorated >= 1 && rec.Code >= 400 && rec.Code < 500 {
			// (also for fields the report format does not have: a server may take them for contents that are not approved)
			// refused because of the bytes after the value: allowed, nothing may change
			if !reflect.DeepEqual(before, after) {
				fail("invalid-stored", "request %q (%s) was answered %d but the storage changed: %v -> %v", why, method, rec.Code, before, after)
				break
			}
		} else if wantValid {
			name := fmt.Sprintf("%s/%s.json", r.Week, fmtG(r.X))
			if rec.Code != 200 {
				fail("valid-rejected", "a valid approved report (week %s, X %v, config %s) was answered %d: %s", r.Week, r.X, r.Config, rec.Code, strings.TrimSpace(rec.Body.String()))
				break
			}
			model[name] = r
			accepted = append(accepted, r)
			// every other object keeps its bytes
			afterH := treeHash(c.Dir)
			stored := filepath.Join("storage", "uploaded", filepath.FromSlash(name))
			for n, h := range beforeH {
				if n != stored && afterH[n] != h {
					fail("other-object-changed", "storing %s changed the content of %s", name, n)
					break
				}
			}
			if viol != nil {
				break
			}
			data, err := os.ReadFile(filepath.Join(bucketDir, filepath.FromSlash(name)))
			if err != nil {
				fail("object-missing", "valid report answered 200 but object %s does not exist: %v", name, err)
				break
			}
			var got report
			dec := json.NewDecoder(bytes.NewReader(data))
			dec.DisallowUnknownFields()
			if err := dec.Decode(&got); err != nil {
				fail("object-undecodable", "object %s does not decode as a report and nothing else: %v", name, err)
				break
			}
			if dec.More() {
				fail("object-undecodable", "object %s holds more than one JSON value", name)
				break
			}
			if decorated > 0 {
				s.Probe(fmt.Sprintf("decorated-body-%d-stored", decorated))
			}
			if !sameReport(&got, r) {
				fail("object-differs", "object %s decodes to a different report than was sent", name)
				break
			}
		} else {
			if rec.Code < 400 {
				fail("invalid-accepted", "request %q (%s) was answered %d", why, method, rec.Code)
				break
			}
			if !reflect.DeepEqual(before, after) {
				fail("invalid-stored", "request %q (%s) was answered %d but the storage changed: %v -> %v", why, method, rec.Code, before, after)
				break
			}
			if !reflect.DeepEqual(beforeH, treeHash(c.Dir)) {
				fail("invalid-stored", "request %q (%s) was answered %d but the content of a stored object changed", why, method, rec.Code)
				break
			}
		}
		// the tree holds exactly the model's objects inside the bucket, and nothing else moved
		var want []string
		for n := range model {
			want = append(want, filepath.Join("storage", "uploaded", filepath.FromSlash(n)))
		}
		want = append(want, "outside.txt")
		sort.Strings(want)
		if !reflect.DeepEqual(after, want) {
			fail("storage-content", "storage holds %v, the model holds %v", after, want)
			break
		}
		if b, _ := os.ReadFile(filepath.Join(c.Dir, "outside.txt")); string(b) != "outside" {
			fail("write-outside-bucket", "a file outside the bucket was changed")
		}
	}
	// Two valid uploads whose handling overlaps: the first stops before one of its
	// storage calls while the second is served in full; each object must decode
	// to the report sent under its name.
	if viol == nil && t.Bool(1, 3) {
		ra, rb := genReport(t, cfg.Ref, false), genReport(t, cfg.Ref, t.Bool(1, 4))
		// The request that is stopped carries the larger report (a later, smaller
		// one fits into whatever the first left behind).
		if ja, _ := json.Marshal(ra); true {
			if jb, _ := json.Marshal(rb); len(jb) > len(ja) && t.Bool(3, 4) {
				ra, rb = rb, ra
			}
		}
		okA, _ := approved(ra, cfg.Ref)
		okB, _ := approved(rb, cfg.Ref)
		na, nb := fmt.Sprintf("%s/%s.json", ra.Week, fmtG(ra.X)), fmt.Sprintf("%s/%s.json", rb.Week, fmtG(rb.X))
		if okA && okB && na != nb && validDate(ra.Week) && validDate(rb.Week) && ra.X != 0 && rb.X != 0 {
			at := []string{"open", "write", "close"}[t.Draw(3)]
			theBucket.arm(at, na)
			post := func(r *report) *httptest.ResponseRecorder {
				body, _ := json.Marshal(r)
				req := httptest.NewRequest("POST", "/upload/"+r.Week, bytes.NewReader(body))
				rec := httptest.NewRecorder()
				h.ServeHTTP(rec, req)
				return rec
			}
			var recA *httptest.ResponseRecorder
			doneA := make(chan struct{})
			go func() { recA = post(ra); close(doneA) }()
			overlapped := false
			select {
			case <-theBucket.parked:
				overlapped = true
			case <-doneA:
			}
			// The second request is served while the first is stopped. An
			// implementation that serves one upload at a time would make it wait for
			// the first: after a short while (real time; only such an implementation
			// ever gets there) the first is let go and the pair is not judged.
			var recB *httptest.ResponseRecorder
			doneB := make(chan struct{})
			go func() { recB = post(rb); close(doneB) }()
			serialised := false
			if overlapped {
				select {
				case <-doneB:
				case <-time.After(3 * time.Second):
					serialised = true
				}
				close(theBucket.release)
				<-doneA
			}
			<-doneB
			if serialised {
				s.Probe("uploads-are-serialised")
				c.Sample = map[string]any{"requests": cases}
				return viol
			}
			if overlapped {
				s.Probe("overlapping-uploads")
				s.Probe("overlap-at-" + at)
			}
			s.Logf("req", "overlapping pair %s (stopped before %s: %v) and %s -> %d, %d", na, at, overlapped, nb, recA.Code, recB.Code)
			if recA.Code != 200 || recB.Code != 200 {
				ja, _ := json.Marshal(ra)
				jb, _ := json.Marshal(rb)
				if recA.Code >= 500 || recB.Code >= 500 {
					fail("server-error", "overlapping uploads were answered %d and %d", recA.Code, recB.Code)
				} else if len(ja) < maxRequestBytes-1024 && len(jb) < maxRequestBytes-1024 {
					// both reports are valid, approved and below the size limit: served one
					// after the other each would be stored
					fail("valid-rejected", "two valid approved reports (weeks %s and %s) whose handling overlapped were answered %d and %d", ra.Week, rb.Week, recA.Code, recB.Code)
				}
			} else {
				for _, x := range []struct {
					n string
					r *report
				}{{na, ra}, {nb, rb}} {
					data, err := os.ReadFile(filepath.Join(bucketDir, filepath.FromSlash(x.n)))
					var got report
					dec := json.NewDecoder(bytes.NewReader(data))
					dec.DisallowUnknownFields()
					if err == nil {
						err = dec.Decode(&got)
					}
					if err != nil {
						fail("object-undecodable", "after two overlapping uploads object %s does not decode as a report: %v", x.n, err)
					} else if dec.More() {
						fail("object-undecodable", "after two overlapping uploads object %s holds more than one JSON value", x.n)
					} else if !sameReport(&got, x.r) {
						fail("object-differs", "after two overlapping uploads (the first stopped before its %s) object %s decodes to a different report than was sent under that name", at, x.n)
					}
				}
			}
		}
	}
	c.Sample = map[string]any{"requests": cases}
	return viol
}

func sameCounts(a, b map[string]int64) bool {
	if len(a) != len(b) {
		return false
	}
	for k, v := range a {
		if w, ok := b[k]; !ok || w != v {
			return false
		}
	}
	return true
}

func fmtG(x float64) string { return fmt.Sprintf("%g", x) }

func sameReport(a, b *report) bool {
	norm := func(r *report) string {
		cp := *r
		cp.Programs = nil
		for _, p := range r.Programs {
			q := *p
			if len(q.Counters) == 0 {
				q.Counters = nil
			}
			if len(q.Stacks) == 0 {
				q.Stacks = nil
			}
			cp.Programs = append(cp.Programs, &q)
		}
		js, _ := json.Marshal(cp)
		return string(js)
	}
	return norm(a) == norm(b)
}

// ---------------------------------------------------------------- C11

type xr struct {
	t  *simrt.Tape
	xs []float64
}

func (r xr) Read(p []byte) (int, error) {
	x := r.xs[r.t.Draw(len(r.xs))]
	if len(p) >= 8 {
		binary.LittleEndian.PutUint64(p, math.Float64bits((x+1)/2))
	}
	return len(p), nil
}

func scenarioC11(c *hlib.RunCtx) *hlib.Violation {
	t := c.Tape
	day := refcal.DaysFromCivil(2024, 1, 1) + t.Draw(800)
	start := time.Unix(int64(day)*86400, 0).UTC().Add(12 * time.Hour)
	s := simrt.New(t, c.Dir, start)
	s.KeepTrace = true
	s.PermuteMaps = true
	c.Sim = s
	simrt.Attach(s)
	defer simrt.Detach()
	var viol *hlib.Violation
	fail := func(inv, format string, args ...any) {
		if viol == nil {
			viol = hlib.Violationf("C11", inv, format, args...)
			s.Logf("VIOLATION", "%s: %s", inv, viol.Message)
			s.Stop = true
		}
	}
	cfg := mgen.GenConfig(t, "v0.1.0")
	storeDir := filepath.Join(c.Dir, "storage")
	os.MkdirAll(storeDir, 0777)
	h, _ := newServer(storeDir, cfg)
	tele := filepath.Join(c.Dir, "tele")
	loc := filepath.Join(tele, "local")
	os.MkdirAll(loc, 0777)
	os.WriteFile(filepath.Join(tele, "mode"), []byte("on 2020-01-01"), 0666)
	telemetry.Default = telemetry.NewDir(tele)
	// (while the known finding about oversize reports is listed, nothing but the big
	// week below may bring a report near the limit)
	mgen.NoMultiPage = strings.Contains(c.Flag("windows"), "oversize-report")
	defer func() { mgen.NoMultiPage = false }()
	n := 2 + t.Draw(5)
	// Files often share a week (several programs ending on the same day):
	// approval is per program, and a report mixes them.
	lastEndAgo := -1
	for i := 0; i < n; i++ {
		days := 1 + t.Draw(7)
		ago := 2 + t.Draw(18)
		if lastEndAgo >= 0 && t.Bool(2, 3) {
			ago = lastEndAgo + days
		}
		lastEndAgo = ago - days
		mgen.WriteCounterFile(t, s, loc, start.Add(-time.Duration(ago)*24*time.Hour), days, t.Biased(2, 5, 6))
	}
	// A week whose report is about as large as the server's request limit: many
	// distinct, long stack counters of an approved build. Known finding
	// C11-report-larger-than-server-limit: the uploader has no size limit, the
	// server refuses what is larger than its own; while that finding is listed
	// (window oversize-report) the week stays safely below the limit.
	if t.Bool(1, 8) {
		target := 40<<10 + t.Draw(45<<10)
		if !strings.Contains(c.Flag("windows"), "oversize-report") && t.Bool(1, 2) {
			target = 80<<10 + t.Draw(60<<10)
		}
		if mgen.WriteBigWeekFile(t, loc, start.Add(-time.Duration(3+t.Draw(10))*24*time.Hour), 1+t.Draw(7), cfg, target) {
			s.Probe("big-week")
		}
	}
	// what the directory holds before the uploader runs, week by week
	byWeek := map[string][]*refreport.CountFile{}
	if ents, err := os.ReadDir(loc); err == nil {
		for _, e := range ents {
			data, _ := os.ReadFile(filepath.Join(loc, e.Name()))
			d, derr := refformat.Decode(data)
			if derr != nil || len(d.Meta["TimeEnd"]) < 10 {
				continue
			}
			w := d.Meta["TimeEnd"][:10]
			byWeek[w] = append(byWeek[w], &refreport.CountFile{Path: e.Name(), Meta: d.Meta, Counts: d.Counts})
		}
	}
	saveReader := rand.Reader
	rand.Reader = xr{t, []float64{0.25, 0.5, mgen.Dyadic(1<<19 + 1), 0.75, 0}} // (0: the entropy source returns a power of two)
	defer func() { rand.Reader = saveReader }()
	mgen.ServeConfig(s, c.Dir, nil, func(version string, env []string) (*telemetry.UploadConfig, string, error) {
		js, _ := json.Marshal(cfg.Real)
		var cp telemetry.UploadConfig
		json.Unmarshal(js, &cp)
		return &cp, "v0.1.0", nil
	})
	var bodies [][]byte
	s.Transport = func(r *simrt.Request) (int, error) {
		path := r.URL[strings.Index(r.URL, "/upload/"):]
		req := httptest.NewRequest("POST", path, bytes.NewReader(r.Body))
		rec := httptest.NewRecorder()
		h.ServeHTTP(rec, req)
		bodies = append(bodies, r.Body)
		if rec.Code != 200 {
			fail("uploader-report-rejected", "the server answered %d to a report the uploader built under the same configuration: %s\n%s", rec.Code, strings.TrimSpace(rec.Body.String()), truncate(string(r.Body), 1500))
		}
		return rec.Code, nil
	}
	p := s.NewProc("uploader", nil)
	tk := s.Spawn(p, "uploader", func() {
		upload.Run(upload.RunConfig{TelemetryDir: tele, UploadURL: "http://telemetry.sim/upload"})
	})
	s.MaxSteps = 200000
	s.Run()
	if tk.Panic != nil {
		fail("panic", "uploader panicked: %v", tk.Panic)
	}
	if viol != nil {
		return viol
	}
	if len(bodies) > 0 {
		c.Note("nontrivial")
		s.Probe("uploader-bodies")
	}
	// The uploader's own answer: what it put into a request is what the
	// configuration's documented semantics select from that week's files, build by
	// build (a build whose counters all fall out may or may not be listed).
	for _, b := range bodies {
		var r report
		if json.Unmarshal(b, &r) != nil {
			continue
		}
		want := refreport.Filter(refreport.Aggregate(byWeek[r.Week]), cfg.Ref, r.X)
		got := map[refreport.Build]*progRep{}
		for _, p := range r.Programs {
			k := refreport.Build{Program: p.Program, Version: p.Version, GoVersion: p.GoVersion, GOOS: p.GOOS, GOARCH: p.GOARCH}
			if got[k] != nil {
				fail("uploader-approval-differs", "the request for week %s lists the build %v twice", r.Week, k)
			}
			got[k] = p
		}
		seen := map[refreport.Build]bool{}
		for _, wp := range want.Programs {
			if !wp.PlatformOK {
				continue
			}
			seen[wp.Build] = true
			g := got[wp.Build]
			if g == nil {
				if len(wp.Counters)+len(wp.Stacks) > 0 {
					fail("uploader-approval-differs", "week %s: the build %v has approved data (%v %v) but the request does not list it", r.Week, wp.Build, wp.Counters, wp.Stacks)
				}
				continue
			}
			if !sameCounts(g.Counters, wp.Counters) || !sameCounts(g.Stacks, wp.Stacks) {
				fail("uploader-approval-differs", "week %s, build %v: the request carries counters %v stacks %v; the configuration selects counters %v stacks %v from that build's files", r.Week, wp.Build, g.Counters, g.Stacks, wp.Counters, wp.Stacks)
			}
		}
		for k, g := range got {
			if !seen[k] && len(g.Counters)+len(g.Stacks) > 0 {
				fail("uploader-approval-differs", "week %s: the request lists the build %v with data, which the configuration does not select (or no file of that week has that build)", r.Week, k)
			}
		}
		if viol != nil {
			return viol
		}
	}
	// the corrupting transport: one field changed to a near-miss
	muts := 0
	for _, b := range bodies {
		var r report
		if json.Unmarshal(b, &r) != nil || len(r.Programs) == 0 {
			continue
		}
		for k := 0; k < 6; k++ {
			var m report
			json.Unmarshal(b, &m)
			pr := m.Programs[t.Draw(len(m.Programs))]
			if pr.Counters == nil {
				pr.Counters = map[string]int64{}
			}
			if pr.Stacks == nil {
				pr.Stacks = map[string]int64{}
			}
			what := ""
			mkind := t.Draw(10)
			switch mkind {
			case 8:
				// a key of the other kind: a stack-shaped key among the counters (an
				// approved counter's or stack's name, a newline, more text)
				nm := append(append([]string{}, mgen.LocalCounterPool...), mgen.CfgStackPool...)[t.Draw(len(mgen.LocalCounterPool)+len(mgen.CfgStackPool))] + "\nsecret/path:12"
				pr.Counters[nm] = 1
				what = "counter " + strings.ReplaceAll(nm, "\n", "\\n")
			case 9:
				// ... and a plain name among the stacks
				nm := mgen.LocalCounterPool[t.Draw(len(mgen.LocalCounterPool))]
				pr.Stacks[nm] = 1
				what = "stack " + nm
			case 0:
				pr.Program = mgen.ProgramPool[t.Draw(len(mgen.ProgramPool))].Path
				what = "program " + pr.Program
			case 1:
				pr.Version = []string{"v0.14.0", "v0.15.0", "v0.16.0-pre.1", "v1.0.0", "devel", "go1.21.0", "v9.9.9"}[t.Draw(7)]
				what = "version " + pr.Version
			case 2:
				pr.GoVersion = []string{"go1.21.0", "go1.22.1", "devel", "go1.99.0"}[t.Draw(4)]
				what = "go version " + pr.GoVersion
			case 3:
				pr.GOOS = []string{"linux", "darwin", "plan9", "windows"}[t.Draw(4)]
				what = "GOOS " + pr.GOOS
			case 4:
				pr.GOARCH = []string{"amd64", "arm64", "mips", "386"}[t.Draw(4)]
				what = "GOARCH " + pr.GOARCH
			case 5:
				nm := mgen.LocalCounterPool[t.Draw(len(mgen.LocalCounterPool))]
				pr.Counters[nm] = 1
				what = "counter " + nm
			case 6:
				nm := mgen.LocalStackPool[t.Draw(len(mgen.LocalStackPool))]
				pr.Stacks[nm] = 1
				what = "stack " + strings.ReplaceAll(nm, "\n", "\\n")
			case 7:
				nm := mgen.CfgStackPool[t.Draw(len(mgen.CfgStackPool))] + "\nmain.f:+1,+0x1"
				pr.Stacks[nm] = 1
				what = "stack " + strings.ReplaceAll(nm, "\n", "\\n")
			}
			ok, item := approved(&m, cfg.Ref)
			mb, _ := json.Marshal(&m)
			req := httptest.NewRequest("POST", "/upload/"+m.Week, bytes.NewReader(mb))
			rec := httptest.NewRecorder()
			h.ServeHTTP(rec, req)
			muts++
			s.Logf("mutant", "%s -> %d (model: approved=%v)", what, rec.Code, ok)
			// The server must accept what the uploader produces: a changed report that
			// is still inside the configuration but that no uploader would build (one
			// build listed twice, a key of the other kind's shape) may be refused.
			producible := mkind != 8 && mkind != 9
			seenBuild := map[string]bool{}
			for _, q := range m.Programs {
				k := q.Program + "\x00" + q.Version + "\x00" + q.GoVersion + "\x00" + q.GOOS + "\x00" + q.GOARCH
				if seenBuild[k] {
					producible = false
				}
				seenBuild[k] = true
			}
			if ok && producible && rec.Code != 200 {
				fail("server-rejects-approved", "report changed to %s is inside the configuration but the server answered %d: %s", what, rec.Code, strings.TrimSpace(rec.Body.String()))
			}
			if !ok && rec.Code < 400 {
				fail("server-accepts-unapproved", "report changed to %s contains %s which is outside the configuration, but the server answered %d", what, item, rec.Code)
			}
			if viol != nil {
				return viol
			}
		}
	}
	c.Notes["mutated-bodies"] += muts
	c.Sample = map[string]any{"files": n, "bodies": len(bodies), "mutants": muts}
	return viol
}

func truncate(s string, n int) string {
	if len(s) > n {
		return s[:n] + "…"
	}
	return s
}

// crossProgramName finds two configured programs and a counter (or stack) name
// that is listed for the first and not for the second.
func crossProgramName(t *simrt.Tape, cfg *refcfg.Config) (a, b *refcfg.Program, name string, isStack bool) {
	if len(cfg.GoVersion) == 0 || len(cfg.GOOS) == 0 || len(cfg.GOARCH) == 0 {
		return nil, nil, "", false
	}
	for i := range cfg.Programs {
		for j := range cfg.Programs {
			pa, pb := &cfg.Programs[i], &cfg.Programs[j]
			if i == j || len(pa.Versions) == 0 || len(pb.Versions) == 0 {
				continue
			}
			for _, c := range pa.Counters {
				for _, e := range refcfg.Expand(c.Name) {
					if _, ok := cfg.CounterRate(pb.Name, e); !ok {
						return pa, pb, e, false
					}
				}
			}
			for _, st := range pa.Stacks {
				if _, ok := cfg.StackRate(pb.Name, st.Name); !ok {
					return pa, pb, st.Name, true
				}
			}
		}
	}
	return nil, nil, "", false
}
