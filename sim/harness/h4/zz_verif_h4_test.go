package main

// Harness H4: the worker world. The real handleMerge and handleChart run over
// bucket handles whose listing order the simulator permutes, with Go's map
// iteration order inside group/partition permuted by the tape as well; stored
// reports range from tiny to the 100 KiB upload limit. Checked against a
// reference count of distinct report IDs.

import (
	"bufio"
	"bytes"
	"context"
	"encoding/json"
	"fmt"
	"io"
	"log"
	"math"
	"net/http/httptest"
	"os"
	"path/filepath"
	"regexp"
	"runtime"
	"sort"
	"strings"
	"sync"
	"syscall"
	"testing"
	"time"

	"golang.org/x/exp/slog"
	"golang.org/x/telemetry/godev/internal/storage"
	tconfig "golang.org/x/telemetry/internal/config"
	"golang.org/x/telemetry/internal/telemetry"
	"golang.org/x/telemetry/internal/verifsim/hlib"
	"golang.org/x/telemetry/internal/verifsim/ref/refcal"
	"golang.org/x/telemetry/internal/verifsim/simrt"
)

func TestVerifSim(t *testing.T) {
	devnull, _ := os.OpenFile(os.DevNull, os.O_WRONLY, 0)
	os.Stderr = devnull
	log.SetOutput(io.Discard)
	slog.SetDefault(slog.New(slog.NewTextHandler(io.Discard, nil)))
	runtime.GOMAXPROCS(1) // as in H3: overlapping requests are served on one processor, in the order the harness decides
	hlib.Main("h4", map[string]hlib.Scenario{"C13": scenarioC13})
}

// permBucket wraps a bucket: the order in which objects are listed comes from the tape.
// It also carries a seam for overlapping requests: the reader of one chosen
// object hands out a first small piece and then stops until it is released,
// while the harness serves another request in full.
type permBucket struct {
	storage.BucketHandle
	t    *simrt.Tape
	park *parkState
}

type parkState struct {
	name    string
	first   int // bytes handed out before the reader stops
	used    bool
	parked  chan struct{}
	release chan struct{}
}

func (b *permBucket) Object(name string) storage.ObjectHandle {
	o := b.BucketHandle.Object(name)
	if b.park != nil && b.park.name == name && !b.park.used {
		return &parkObject{o, b.park}
	}
	return o
}

type parkObject struct {
	storage.ObjectHandle
	st *parkState
}

func (o *parkObject) NewReader(ctx context.Context) (io.ReadCloser, error) {
	r, err := o.ObjectHandle.NewReader(ctx)
	if err != nil || o.st.used {
		return r, err
	}
	o.st.used = true
	return &parkReader{ReadCloser: r, st: o.st}, nil
}

type parkReader struct {
	io.ReadCloser
	st    *parkState
	calls int
}

func (r *parkReader) Read(p []byte) (int, error) {
	r.calls++
	switch r.calls {
	case 1:
		if len(p) > r.st.first {
			p = p[:r.st.first]
		}
	case 2:
		close(r.st.parked)
		<-r.st.release
	}
	return r.ReadCloser.Read(p)
}

type sliceIter struct {
	names []string
	i     int
}

func (it *sliceIter) Next() (string, error) {
	if it.i >= len(it.names) {
		return "", storage.ErrObjectIteratorDone
	}
	it.i++
	return it.names[it.i-1], nil
}

func (b *permBucket) Objects(ctx context.Context, prefix string) storage.ObjectIterator {
	it := b.BucketHandle.Objects(ctx, prefix)
	var names []string
	for {
		n, err := it.Next()
		if err != nil {
			break
		}
		names = append(names, n)
	}
	for i := 0; i < len(names)-1; i++ {
		j := i + b.t.Biased(len(names)-i, 1, 2)
		names[i], names[j] = names[j], names[i]
	}
	return &sliceIter{names: names}
}

type prog struct {
	Program, Version, GoVersion, GOOS, GOARCH string
	Counters                                  map[string]int64
	Stacks                                    map[string]int64
}

type rep struct {
	Week     string
	LastWeek string
	X        float64
	Programs []*prog
	Config   string
}

var goLangRE = regexp.MustCompile(`^go([1-9][0-9]*|0)\.([1-9][0-9]*|0)`)

// goMajMin is the Go language version of a toolchain version, as the Go
// documentation defines it: go1.21.5, go1.21rc2 and go1.21 are all go1.21.
func goMajMin(v string) string {
	m := goLangRE.FindStringSubmatch(v)
	if m == nil {
		return ""
	}
	return "go" + m[1] + "." + m[2]
}

// lowFileLimit makes open files a scarce resource, as they are on a loaded
// server: a worker that keeps every report of a day open cannot merge a busy day.
var lowFileLimit sync.Once

func scenarioC13(c *hlib.RunCtx) *hlib.Violation {
	lowFileLimit.Do(func() {
		var lim syscall.Rlimit
		if syscall.Getrlimit(syscall.RLIMIT_NOFILE, &lim) == nil && lim.Cur > 40 {
			lim.Cur = 40
			syscall.Setrlimit(syscall.RLIMIT_NOFILE, &lim)
		}
	})
	t := c.Tape
	s := simrt.New(t, c.Dir, time.Date(2024, 1, 1, 0, 0, 0, 0, time.UTC))
	// The worker's machine may be in any zone: days are UTC days whatever it is.
	if z := t.Biased(4, 2, 3); z > 0 {
		s.SetZone([]*time.Location{nil, time.FixedZone("UTC-8", -8*3600), time.FixedZone("UTC+14", 14*3600), time.FixedZone("UTC-3", -3*3600)}[z])
		s.Probe("machine-in-local-zone")
	}
	s.KeepTrace = true
	s.PermuteMaps = true
	c.Sim = s
	simrt.Attach(s)
	defer simrt.Detach()
	var viol *hlib.Violation
	fail := func(inv, format string, args ...any) {
		if viol == nil {
			viol = hlib.Violationf("C13", inv, format, args...)
			s.Logf("VIOLATION", "%s: %s", inv, viol.Message)
		}
	}
	ctx := context.Background()
	dir := filepath.Join(c.Dir, "storage")
	mk := func(name string) storage.BucketHandle {
		b, err := storage.NewFSBucket(ctx, dir, name)
		if err != nil {
			panic(err)
		}
		return &permBucket{BucketHandle: b, t: t}
	}
	api := &storage.API{Upload: mk("uploaded"), Merge: mk("merged"), Chart: mk("charts")}

	// configuration
	ucfg := &telemetry.UploadConfig{
		GOOS: []string{"linux", "darwin", "windows"}, GOARCH: []string{"amd64", "arm64"},
		GoVersion: []string{"go1.21.0", "go1.21.5", "go1.22.1", "go1.23.0", "go1.21rc2", "go1.22beta1", "go1.9.2", "go1.100.0", "go1.22", "go2.0.1"},
		Programs: []*telemetry.ProgramConfig{
			{Name: "example.com/gopls", Versions: []string{"v0.14.0", "v0.15.0", "v0.15.1", "v0.15.1+incompatible", "v0.15.1+build.7"}, // the last three are equal as semantic versions
				Counters: []telemetry.CounterConfig{{Name: "editor:{vscode,vim,emacs}", Rate: 1}, {Name: "plain", Rate: 1}, {Name: "signal:{os:kill,os:term,none}", Rate: 1}}}, // buckets that contain a colon themselves
			{Name: "cmd/go", Versions: []string{"go1.21.0", "go1.22.1"},
				Counters: []telemetry.CounterConfig{{Name: "go/invocations", Rate: 1}, {Name: "flag:{-json,-v}", Rate: 1}}},
		},
	}
	if t.Bool(1, 3) {
		ucfg.Programs = ucfg.Programs[:1]
	}
	// Shapes of a configuration that mean the same: lists in another order, a
	// bucket list written as two entries, a program without counters, a program
	// listed after the others.
	switch t.Biased(6, 1, 2) {
	case 1:
		for i, j := 0, len(ucfg.GoVersion)-1; i < j; i, j = i+1, j-1 {
			ucfg.GoVersion[i], ucfg.GoVersion[j] = ucfg.GoVersion[j], ucfg.GoVersion[i]
		}
		s.Probe("config-go-versions-reversed")
	case 2:
		for i, j := 0, len(ucfg.Programs)-1; i < j; i, j = i+1, j-1 {
			ucfg.Programs[i], ucfg.Programs[j] = ucfg.Programs[j], ucfg.Programs[i]
		}
		s.Probe("config-programs-reversed")
	case 3:
		cs := ucfg.Programs[0].Counters
		for i := range cs {
			if cs[i].Name == "editor:{vscode,vim,emacs}" {
				cs[i].Name = "editor:{vscode}"
				ucfg.Programs[0].Counters = append(cs, telemetry.CounterConfig{Name: "editor:{vim,emacs}", Rate: 1})
			}
		}
		s.Probe("config-bucket-list-in-two-entries")
	case 4:
		ucfg.Programs = append(ucfg.Programs, &telemetry.ProgramConfig{Name: "example.com/quiet", Versions: []string{"v1.0.0"}})
		s.Probe("config-program-without-counters")
	case 5:
		for _, p := range ucfg.Programs {
			for i, j := 0, len(p.Versions)-1; i < j; i, j = i+1, j-1 {
				p.Versions[i], p.Versions[j] = p.Versions[j], p.Versions[i]
			}
			for i, j := 0, len(p.Counters)-1; i < j; i, j = i+1, j-1 {
				p.Counters[i], p.Counters[j] = p.Counters[j], p.Counters[i]
			}
		}
		ucfg.GOOS[0], ucfg.GOOS[2] = ucfg.GOOS[2], ucfg.GOOS[0]
		s.Probe("config-lists-reversed")
	}
	cfg := tconfig.NewConfig(ucfg)

	// stored reports per day
	day0 := refcal.DaysFromCivil(2024, 1, 1) + t.Draw(700)
	ndays := 1 + t.Draw(4)
	if t.Bool(1, 5) {
		ndays = 7 + t.Draw(2) // the week-long range production charts
	}
	stored := map[string][]*rep{} // date -> reports
	formats := map[string]int{}
	formatOf := func(name string) int {
		if f, ok := formats[name]; ok {
			return f
		}
		formats[name] = t.Biased(4, 3, 4)
		return formats[name]
	}
	put := func(name string, js []byte) {
		w, err := api.Upload.Object(name).NewWriter(ctx)
		if err != nil {
			panic(err)
		}
		// as the server writes it (one compact line), or as a copy of another
		// bucket may look: no final newline, indented, CRLF
		switch formatOf(name) {
		case 1:
			w.Write(js)
		case 2:
			var buf bytes.Buffer
			json.Indent(&buf, js, "", "  ")
			w.Write(append(buf.Bytes(), '\n'))
		case 3:
			w.Write(append(js, '\r', '\n'))
		default:
			w.Write(append(js, '\n'))
		}
		w.Close()
	}
	var finals [][2]string
	remerge := map[string]bool{}
	xs := []float64{0.125, 0.25, 0.375, 0.5, 0.625, 0.75, 0.875, 0.0625}
	for d := 0; d < ndays; d++ {
		date := refcal.Date(day0 + d)
		n := t.Draw(7)
		if t.Bool(1, 8) {
			n = 10 + t.Draw(45) // more reports in a day than the process may hold open files (see lowFileLimit)
		}
		used := map[float64]bool{}
		for i := 0; i < n; i++ {
			x := xs[t.Draw(len(xs))]
			if t.Bool(1, 3) {
				x = float64(1+t.Draw(1<<20)) / float64(1<<21)
			}
			switch t.Biased(5, 5, 6) {
			case 1: // a full mantissa
				x = (float64(1+t.Draw(1<<30)) + 0.5) / float64(1<<31) * (1 - 1.0/float64(uint64(1)<<52))
			case 2: // two IDs one unit in the last place apart
				x = math.Nextafter(0.3, 1)
				if used[x] {
					x = 0.3
				}
			case 3: // the server accepts any non-zero X
				x = 1.5 + float64(t.Draw(4))
			case 4:
				x = -0.25 - float64(t.Draw(4))
			}
			if used[x] {
				continue
			}
			used[x] = true
			r := &rep{Week: refcal.Date(day0 + d - t.Draw(3)), X: x, Config: "v0.1.0"}
			np := t.Biased(4, 1, 12) // mostly 1..3 programs, sometimes none (every build was filtered)
			if np == 0 {
				np = 1 + t.Draw(3)
			} else {
				np = 0
			}
			for k := 0; k < np; k++ {
				pc := ucfg.Programs[t.Draw(len(ucfg.Programs))]
				p := &prog{Program: pc.Name, Version: pc.Versions[t.Draw(len(pc.Versions))], GoVersion: ucfg.GoVersion[t.Draw(len(ucfg.GoVersion))],
					GOOS: ucfg.GOOS[t.Draw(len(ucfg.GOOS))], GOARCH: ucfg.GOARCH[t.Draw(len(ucfg.GOARCH))], Counters: map[string]int64{}, Stacks: map[string]int64{}}
				for _, cc := range pc.Counters {
					for _, e := range tconfigExpand(cc.Name) {
						if t.Bool(1, 2) {
							p.Counters[e] = int64(t.Draw(100))
						}
					}
				}
				// Reports stored under an older configuration: an item the current one
				// does not list. Charts count configured buckets only.
				if t.Bool(1, 5) {
					switch t.Draw(7) {
					case 0:
						p.Program = "example.com/unlisted"
					case 1:
						p.Version = "v9.9.9"
					case 2:
						p.GoVersion = []string{"go1.21.3", "go1.20.1", "go1.21", "devel +abc"}[t.Draw(4)] // go1.21.3: same language version as a listed one, not listed itself
					case 3:
						p.GOOS = "plan9"
					case 4:
						p.GOARCH = "mips"
					case 5:
						p.Counters["editor:notepad"] = 3
					case 6:
						p.Counters["unlisted:x"] = 3
					}
					s.Probe("report-item-outside-config")
				}
				r.Programs = append(r.Programs, p)
			}
			// size classes: tiny .. just under the 100 KiB upload limit (merged lines above 64 KiB)
			if len(r.Programs) > 0 && t.Bool(1, 6) {
				frames := strings.Repeat("example.com/very/long/import/path.Function:+12,+0x1234\n", 1250+t.Draw(500))
				if t.Bool(1, 3) {
					// A body below the upload limit whose stored form is above it: the
					// server stores what it decoded, encoded again, and < and > then
					// take six bytes each (1500..1749 frames: 83..97 KiB as sent with
					// the characters themselves, 98..114 KiB as stored and merged).
					frames = strings.Repeat("example.com/very/long/import/path.Fn[<T>]:+12,+0x1234\n", 1500+t.Draw(250))
					s.Probe("stored-form-above-the-upload-limit")
				}
				r.Programs[0].Stacks["crash/crash\n"+frames] = 1
			}
			js, _ := json.Marshal(r)
			name := fmt.Sprintf("%s/%g.json", date, r.X)
			// The report may have been sent before with more in it (the same week
			// and X name the same object): the day was merged then, and is merged
			// again now that the object is smaller.
			if t.Bool(1, 8) && len(r.Programs) > 0 {
				big := *r
				bp := *r.Programs[0]
				bp.Stacks = map[string]int64{"crash/crash\n" + strings.Repeat("example.com/earlier/version.F:+1,+0x10\n", 1+t.Draw(300)): 1}
				big.Programs = append([]*prog{&bp}, r.Programs[1:]...)
				bjs, _ := json.Marshal(&big)
				put(name, bjs)
				remerge[date] = true
				s.Probe("object-rewritten-smaller")
			}
			finals = append(finals, [2]string{name, string(js)})
			stored[date] = append(stored[date], r)
		}
	}
	var redo []string
	for date := range remerge {
		redo = append(redo, date)
	}
	sort.Strings(redo)
	for _, date := range redo {
		// the other reports of the day were there already
		for _, f := range finals {
			if strings.HasPrefix(f[0], date+"/") && !exists(filepath.Join(dir, "uploaded", filepath.FromSlash(f[0]))) {
				put(f[0], []byte(f[1]))
			}
		}
		rec := httptest.NewRecorder()
		handleMerge(api).ServeHTTP(rec, httptest.NewRequest("GET", "/merge/?date="+date, nil))
	}
	for _, f := range finals {
		put(f[0], []byte(f[1]))
	}
	for _, rs := range stored {
		if len(rs) > 0 {
			c.Note("nontrivial") // at least one report is stored
			break
		}
	}
	// merge every day but (sometimes) one
	skipDay := -1
	if ndays > 1 && t.Bool(1, 3) {
		skipDay = t.Draw(ndays)
		if remerge[refcal.Date(day0+skipDay)] {
			skipDay = -1 // that day has a merged object from before
		}
	}
	var sample []string
	for d := 0; d < ndays && viol == nil; d++ {
		if d == skipDay {
			continue
		}
		date := refcal.Date(day0 + d)
		rec := httptest.NewRecorder()
		handleMerge(api).ServeHTTP(rec, httptest.NewRequest("GET", "/merge/?date="+date, nil))
		if rec.Code != 200 {
			fail("merge-failed", "merging %s answered %d: %s", date, rec.Code, rec.Body.String())
			break
		}
		data, err := os.ReadFile(filepath.Join(dir, "merged", date+".json"))
		if err != nil {
			fail("merge-missing", "merged object for %s is missing", date)
			break
		}
		// (1) exactly one line per stored report, each decoding to it
		var lines [][]byte
		rd := bufio.NewReaderSize(bytes.NewReader(data), 1<<20)
		for {
			ln, err := rd.ReadBytes('\n')
			if len(bytes.TrimSpace(ln)) > 0 {
				lines = append(lines, ln)
			}
			if err != nil {
				break
			}
		}
		if len(lines) != len(stored[date]) {
			fail("merge-count", "day %s has %d stored reports, the merged object has %d records", date, len(stored[date]), len(lines))
			break
		}
		seen := map[float64]bool{}
		for _, ln := range lines {
			var got rep
			if err := json.Unmarshal(ln, &got); err != nil {
				fail("merge-record", "a merged record of %s does not decode: %v", date, err)
				break
			}
			var want *rep
			for _, r := range stored[date] {
				if r.X == got.X {
					want = r
				}
			}
			if want == nil || seen[got.X] || !sameRep(want, &got) {
				fail("merge-record", "a merged record of %s (X=%v) does not match a stored report exactly once", date, got.X)
				break
			}
			seen[got.X] = true
		}
		sample = append(sample, fmt.Sprintf("%s: %d reports", date, len(stored[date])))
		s.Logf("op", "merge %s: %d reports, %d bytes", date, len(stored[date]), len(data))
	}
	if viol != nil {
		return viol
	}
	// charts: single days and ranges
	nq := 1 + t.Draw(4)
	for q := 0; q < nq && viol == nil; q++ {
		a := t.Draw(ndays)
		b := a + t.Draw(ndays-a)
		start, end := refcal.Date(day0+a), refcal.Date(day0+b)
		url := fmt.Sprintf("/chart/?start=%s&end=%s", start, end)
		obj := start + "_" + end + ".json"
		if a == b {
			obj = end + ".json"
			if t.Bool(1, 2) {
				url = "/chart/?date=" + start
			}
		}
		missing := skipDay >= a && skipDay <= b
		var first []byte
		for attempt := 0; attempt < 3 && viol == nil; attempt++ {
			os.Remove(filepath.Join(dir, "charts", obj))
			if attempt > 0 && !missing {
				// the same reports merged again in another listing order
				for dd := a; dd <= b; dd++ {
					rec := httptest.NewRecorder()
					handleMerge(api).ServeHTTP(rec, httptest.NewRequest("GET", "/merge/?date="+refcal.Date(day0+dd), nil))
				}
			}
			rec := httptest.NewRecorder()
			handleChart(cfg, api).ServeHTTP(rec, httptest.NewRequest("GET", url, nil))
			if missing {
				if rec.Code != 404 {
					fail("missing-day-charted", "the range %s..%s contains a day that was never merged, but charting answered %d", start, end, rec.Code)
				}
				if _, err := os.Stat(filepath.Join(dir, "charts", obj)); err == nil {
					fail("missing-day-charted", "the range %s..%s contains a day that was never merged, but a chart object was written", start, end)
				}
				break
			}
			if rec.Code != 200 {
				fail("chart-failed", "charting %s..%s answered %d: %s", start, end, rec.Code, rec.Body.String())
				break
			}
			out, err := os.ReadFile(filepath.Join(dir, "charts", obj))
			if err != nil {
				fail("chart-missing", "chart object %s missing", obj)
				break
			}
			if attempt == 0 {
				first = out
				checkChart(out, ucfg, stored, day0, a, b, fail)
			} else if !bytes.Equal(out, first) {
				fail("chart-not-deterministic", "charting %s..%s twice under different listing and map orders gives different output", start, end)
			}
		}
		sample = append(sample, fmt.Sprintf("chart %s..%s missing=%v", start, end, missing))
		s.Logf("op", "chart %s..%s missing=%v bytes=%d", start, end, missing, len(first))
	}
	// Two chart requests whose handling overlaps: the first stops in the middle of
	// reading one day's merged reports while the second is served in full. Each
	// chart is that of its own day.
	if viol == nil && ndays >= 2 && t.Bool(1, 3) {
		a := t.Draw(ndays)
		b := (a + 1 + t.Draw(ndays-1)) % ndays
		if a != skipDay && b != skipDay && len(stored[refcal.Date(day0+a)]) > 0 {
			da, db := refcal.Date(day0+a), refcal.Date(day0+b)
			os.Remove(filepath.Join(dir, "charts", da+".json"))
			os.Remove(filepath.Join(dir, "charts", db+".json"))
			st := &parkState{name: da + ".json", first: 1 + t.Draw(60), parked: make(chan struct{}), release: make(chan struct{})}
			api.Merge.(*permBucket).park = st
			recA, recB := httptest.NewRecorder(), httptest.NewRecorder()
			doneA := make(chan struct{})
			go func() {
				handleChart(cfg, api).ServeHTTP(recA, httptest.NewRequest("GET", "/chart/?date="+da, nil))
				close(doneA)
			}()
			overlapped := false
			select {
			case <-st.parked:
				overlapped = true
			case <-doneA:
			}
			// (served while the first is stopped; an implementation that serves one
			// chart at a time makes it wait: after a short while of real time the first
			// is let go and the pair is not judged)
			doneB := make(chan struct{})
			go func() {
				handleChart(cfg, api).ServeHTTP(recB, httptest.NewRequest("GET", "/chart/?date="+db, nil))
				close(doneB)
			}()
			serialised := false
			if overlapped {
				select {
				case <-doneB:
				case <-time.After(3 * time.Second):
					serialised = true
				}
				close(st.release)
				<-doneA
			}
			<-doneB
			api.Merge.(*permBucket).park = nil
			if serialised {
				s.Probe("charts-are-serialised")
			} else {
				if overlapped {
					s.Probe("overlapping-charts")
				}
				s.Logf("op", "overlapping charts of %s (stopped after %d bytes: %v) and %s -> %d, %d", da, st.first, overlapped, db, recA.Code, recB.Code)
				for _, x := range []struct {
					date string
					day  int
					rec  *httptest.ResponseRecorder
				}{{da, a, recA}, {db, b, recB}} {
					if x.rec.Code != 200 {
						fail("chart-failed", "charting %s while another chart request was being served answered %d: %s", x.date, x.rec.Code, x.rec.Body.String())
						continue
					}
					out, err := os.ReadFile(filepath.Join(dir, "charts", x.date+".json"))
					if err != nil {
						fail("chart-missing", "chart object %s.json missing after two overlapping chart requests", x.date)
						continue
					}
					checkChart(out, ucfg, stored, day0, x.day, x.day, fail)
				}
			}
		}
	}
	// A late report arrives for a day that was already merged and charted: the
	// day is merged again (the worker does so daily for the past week) and the
	// chart of that day must count it.
	if viol == nil && t.Bool(1, 2) {
		d := t.Draw(ndays)
		if d != skipDay {
			date := refcal.Date(day0 + d)
			r := &rep{Week: date, X: 0.4375 + float64(t.Draw(1000))/float64(1<<20), Config: "v0.1.0"}
			for _, o := range stored[date] {
				if o.X == r.X {
					r = nil
					break
				}
			}
			if r != nil {
				pc := ucfg.Programs[0]
				r.Programs = []*prog{{Program: pc.Name, Version: pc.Versions[0], GoVersion: ucfg.GoVersion[0], GOOS: ucfg.GOOS[0], GOARCH: ucfg.GOARCH[0], Counters: map[string]int64{"plain": 1}, Stacks: map[string]int64{}}}
				js, _ := json.Marshal(r)
				put(fmt.Sprintf("%s/%g.json", date, r.X), js)
				stored[date] = append(stored[date], r)
				rec := httptest.NewRecorder()
				handleMerge(api).ServeHTTP(rec, httptest.NewRequest("GET", "/merge/?date="+date, nil))
				os.Remove(filepath.Join(dir, "charts", date+".json"))
				rec = httptest.NewRecorder()
				handleChart(cfg, api).ServeHTTP(rec, httptest.NewRequest("GET", "/chart/?date="+date, nil))
				if rec.Code != 200 {
					fail("chart-failed", "charting %s after a late report answered %d: %s", date, rec.Code, rec.Body.String())
				} else if out, err := os.ReadFile(filepath.Join(dir, "charts", date+".json")); err != nil {
					fail("chart-missing", "chart object %s.json missing after a late report", date)
				} else {
					checkChart(out, ucfg, stored, day0, d, d, fail)
				}
				s.Probe("late-report-remerged")
			}
		}
	}
	c.Sample = map[string]any{"days": ndays, "ops": sample, "programs": len(ucfg.Programs)}
	return viol
}

// tconfigExpand expands the documented chart:{bucket,...} syntax, written here
// from the documentation so that the expectation does not go through the
// implementation's own expander.
func tconfigExpand(name string) []string {
	open := strings.Index(name, ":{")
	if open < 0 || !strings.HasSuffix(name, "}") {
		return []string{name}
	}
	var out []string
	for _, b := range strings.Split(name[open+2:len(name)-1], ",") {
		out = append(out, name[:open+1]+b)
	}
	return out
}

var _ = tconfig.Expand

func sameRep(a, b *rep) bool {
	norm := func(r *rep) string {
		cp := *r
		cp.Programs = nil
		for _, p := range r.Programs {
			q := *p
			if len(q.Counters) == 0 {
				q.Counters = nil
			}
			if len(q.Stacks) == 0 {
				q.Stacks = nil
			}
			cp.Programs = append(cp.Programs, &q)
		}
		js, _ := json.Marshal(cp)
		return string(js)
	}
	return norm(a) == norm(b)
}

// checkChart compares the chart with the reference count: NumReports is the
// number of merged reports in the range, and each partition value is the number
// of distinct report IDs in the range that carry that program's bucket.
func checkChart(out []byte, ucfg *telemetry.UploadConfig, stored map[string][]*rep, day0, a, b int, fail func(inv, format string, args ...any)) {
	var cd struct {
		DateRange  [2]string
		NumReports int
		Programs   []struct {
			Name   string
			Charts []struct {
				Name string
				Data []struct {
					Key   string
					Value float64
				}
			}
		}
	}
	if err := json.Unmarshal(out, &cd); err != nil {
		fail("chart-undecodable", "chart does not decode: %v", err)
		return
	}
	var reports []*rep
	for d := a; d <= b; d++ {
		reports = append(reports, stored[refcal.Date(day0+d)]...)
	}
	if cd.NumReports != len(reports) {
		fail("num-reports", "the range holds %d merged reports, the chart says NumReports=%d", len(reports), cd.NumReports)
		return
	}
	// reference: (program, chart, key) -> set of X
	type key struct{ prog, chart, bucket string }
	ref := map[key]map[float64]bool{}
	add := func(k key, x float64) {
		if ref[k] == nil {
			ref[k] = map[float64]bool{}
		}
		ref[k][x] = true
	}
	inList := func(l []string, s string) bool {
		for _, x := range l {
			if x == s {
				return true
			}
		}
		return false
	}
	for _, r := range reports {
		for _, p := range r.Programs {
			var pc *telemetry.ProgramConfig
			for _, x := range ucfg.Programs {
				if x.Name == p.Program {
					pc = x
				}
			}
			if pc == nil {
				continue
			}
			if inList(pc.Versions, p.Version) {
				add(key{p.Program, "Version", p.Version}, r.X)
			}
			if inList(ucfg.GOOS, p.GOOS) {
				add(key{p.Program, "GOOS", p.GOOS}, r.X)
			}
			if inList(ucfg.GOARCH, p.GOARCH) {
				add(key{p.Program, "GOARCH", p.GOARCH}, r.X)
			}
			if inList(ucfg.GoVersion, p.GoVersion) {
				add(key{p.Program, "GoVersion", goMajMin(p.GoVersion)}, r.X)
			}
			for cn := range p.Counters {
				for _, cc := range pc.Counters {
					for _, e := range tconfigExpand(cc.Name) {
						if e == cn {
							chart, bucket := cn, cn
							if i := strings.Index(cn, ":"); i >= 0 {
								chart, bucket = cn[:i], cn[i+1:]
							}
							add(key{p.Program, chart, bucket}, r.X)
						}
					}
				}
			}
		}
	}
	seen := map[key]bool{}
	for _, p := range cd.Programs {
		for _, ch := range p.Charts {
			if strings.HasPrefix(p.Name, "cmd/") && ch.Name == "Version" {
				continue
			}
			for _, d := range ch.Data {
				k := key{p.Name, ch.Name, d.Key}
				seen[k] = true
				if want := len(ref[k]); int(d.Value) != want {
					fail("partition-value", "program %s chart %s bucket %s: chart says %v, %d distinct report IDs in the range carry it", p.Name, ch.Name, d.Key, d.Value, want)
					return
				}
			}
		}
	}
	for k, set := range ref {
		if strings.HasPrefix(k.prog, "cmd/") && k.chart == "Version" {
			continue
		}
		if len(set) > 0 && !seen[k] {
			fail("partition-missing", "program %s chart %s bucket %s is carried by %d report IDs but is not in the chart", k.prog, k.chart, k.bucket, len(set))
			return
		}
	}
}

func exists(p string) bool { _, err := os.Stat(p); return err == nil }
