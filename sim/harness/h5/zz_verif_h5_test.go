package storage

// Harness H5: the storage world. Histories of write / overwrite / read /
// prefix-list on the real FSBucket against a map object store; and every object
// name the upload, merge and chart services construct must resolve under the
// bucket's directory.

import (
	"context"

	"errors"
	"fmt"
	"golang.org/x/telemetry/godev/internal/config"
	"io"
	"os"
	"path/filepath"
	"reflect"
	"sort"
	"strings"
	"testing"
	"time"

	"golang.org/x/telemetry/internal/verifsim/hlib"
	"golang.org/x/telemetry/internal/verifsim/ref/refcal"
	"golang.org/x/telemetry/internal/verifsim/simrt"
)

func TestVerifSim(t *testing.T) {
	hlib.Main("h5", map[string]hlib.Scenario{"C18": scenarioC18})
}

func scenarioC18(c *hlib.RunCtx) *hlib.Violation {
	t := c.Tape
	s := simrt.New(t, c.Dir, time.Date(2024, 1, 1, 0, 0, 0, 0, time.UTC))
	s.KeepTrace = true
	c.Sim = s
	simrt.Attach(s)
	defer simrt.Detach()
	var viol *hlib.Violation
	fail := func(inv, format string, args ...any) {
		if viol == nil {
			viol = hlib.Violationf("C18", inv, format, args...)
			s.Logf("VIOLATION", "%s: %s", inv, viol.Message)
		}
	}
	ctx := context.Background()
	viaConfig := t.Bool(1, 2)
	root := filepath.Join(c.Dir, "store")
	bname := []string{"uploaded", "dev-telemetry-merged", "charts"}[t.Draw(3)]
	// the storage directory as a configuration may spell it: clean, or with a
	// trailing slash, a doubled slash, a "./" inside
	rootArg := root
	switch t.Biased(4, 2, 3) {
	case 1:
		rootArg = root + "/"
	case 2:
		rootArg = filepath.Dir(root) + "//" + filepath.Base(root)
	case 3:
		rootArg = filepath.Dir(root) + "/./" + filepath.Base(root)
	}
	// opened as the servers do (through the configuration) or directly
	open := func(dir, name string) (BucketHandle, error) {
		if viaConfig {
			return NewBucket(ctx, &config.Config{LocalStorage: dir}, name)
		}
		return NewFSBucket(ctx, dir, name)
	}
	bh, err := open(rootArg, bname)
	if err != nil {
		panic(err)
	}
	// another storage directory with a bucket of the same name, in the same
	// process: its objects are its own
	root2 := filepath.Join(c.Dir, "store2")
	bh2, err := open(root2, bname)
	if err != nil {
		panic(err)
	}
	if w2, err := bh2.Object("2024-01-08/0.5.json").NewWriter(ctx); err == nil {
		w2.Write([]byte("second root"))
		w2.Close()
	}
	// a sibling whose name starts with this bucket's name (production buckets share a prefix)
	twin, _ := NewFSBucket(ctx, root, bname+"-old")
	tw, _ := twin.Object("2024-01-08/0.5.json").NewWriter(ctx)
	tw.Write([]byte("twin"))
	tw.Close()
	// a sibling bucket and a file outside: never touched
	other, _ := NewFSBucket(ctx, root, "other")
	ow, _ := other.Object("keep.json").NewWriter(ctx)
	ow.Write([]byte("keep"))
	ow.Close()
	bucketDir := filepath.Join(root, bname)

	comps := []string{"a", "b", "2024-01-08", "0.5.json", "x.json", "dir", "Z", "1e-05.json", "-1.json", "sub",
		// ordinary components an implementation might treat specially: hidden, with a
		// space, percent or hash sign, non-ASCII, and long
		".hidden", "a b", "50%.json", "#1", "é", "日本", strings.Repeat("n", 200)}
	model := map[string][]byte{}
	isPrefixConflict := func(name string) bool {
		for n := range model {
			if n != name && (strings.HasPrefix(n, name+"/") || strings.HasPrefix(name, n+"/")) {
				return true
			}
		}
		return false
	}
	// A few dates per run, so that a day's directory (upload bucket layout), its
	// date.json (merge layout) and start_end.json (chart layout) coexist as
	// siblings whose names share prefixes.
	dayPool := []int{refcal.DaysFromCivil(1990, 1, 1) + t.Draw(25567)}
	dayPool = append(dayPool, dayPool[0]+1+t.Draw(9), dayPool[0]+10+t.Draw(300))
	var genName func() string
	genName1 := func() string {
		// a sibling of a stored object: its name plus a suffix an implementation
		// might use for itself (temporary files, backups, locks)
		if len(model) > 0 && t.Bool(1, 6) {
			keys := sortedKeys(model)
			return keys[t.Draw(len(keys))] + []string{".tmp", ".bak", "~", ".lock", ".tmp1", ".new"}[t.Draw(6)]
		}
		return genName()
	}
	genName = func() string {
		// names the services construct, or nested ordinary components
		switch t.Draw(4) {
		case 0:
			day := dayPool[t.Draw(len(dayPool))]
			xs := []float64{0.5, 1e-05, 1e308, -1, 5e-324, 0.1234567890123, 123456789, 1}
			return fmt.Sprintf("%s/%g.json", refcal.Date(day), xs[t.Draw(len(xs))])
		case 1:
			day := dayPool[t.Draw(len(dayPool))]
			if t.Bool(1, 2) {
				return refcal.Date(day) + ".json"
			}
			return refcal.Date(day) + "_" + refcal.Date(dayPool[t.Draw(len(dayPool))]+t.Draw(3)) + ".json"
		default:
			n := 1 + t.Draw(4)
			var parts []string
			for i := 0; i < n; i++ {
				parts = append(parts, comps[t.Draw(len(comps))])
			}
			return strings.Join(parts, "/")
		}
	}
	nops := 4 + t.Draw(16)
	var ops []string
	defer func() {
		if len(model) > 0 {
			c.Note("nontrivial") // at least one object was written
		}
	}()
	for i := 0; i < nops && viol == nil; i++ {
		if t.Bool(1, 8) {
			// the service restarts: a new handle over the same directory
			nb, err := open(rootArg, bname)
			if err != nil {
				fail("reopen-failed", "a second NewFSBucket over an existing bucket directory: %v", err)
				break
			}
			bh = nb
			s.Probe("bucket-reopened")
		}
		switch t.Draw(4) {
		case 0, 1: // write / overwrite
			if len(model) > 0 && t.Bool(1, 6) {
				// an object written by copying another one (the worker copies reports
				// between buckets): from then on the two are objects of their own, and
				// what is written to either later is not read from the other
				keys := sortedKeys(model)
				src := keys[t.Draw(len(keys))]
				dst := genName()
				if dst == src || isPrefixConflict(dst) {
					continue
				}
				if _, stored := model[dst]; !stored && t.Bool(1, 4) {
					// a copy from an object that is not there (lost between a listing and the
					// copy) fails, and stores nothing: the name it was to be copied to still
					// reads not-exist
					ghost := genName()
					if _, there := model[ghost]; !there && !isPrefixConflict(ghost) && ghost != dst {
						if err := Copy(ctx, bh.Object(dst), bh.Object(ghost)); err == nil {
							fail("absent-read", "copying absent object %q to %q succeeded", ghost, dst)
							break
						}
						if r, err := bh.Object(dst).NewReader(ctx); !errors.Is(err, ErrObjectNotExist) {
							if r != nil {
								r.Close()
							}
							fail("absent-read", "after a failed copy from absent object %q, reading %q (never stored): err=%v, want not-exist", ghost, dst, err)
							break
						}
						s.Probe("copy-from-absent-object")
						continue
					}
				}
				if err := Copy(ctx, bh.Object(dst), bh.Object(src)); err != nil {
					fail("write-failed", "copying %q to %q: %v", src, dst, err)
					break
				}
				model[dst] = model[src]
				ops = append(ops, "copy "+src+" -> "+dst)
				s.Logf("op", "copy %s -> %s", src, dst)
				s.Probe("copy")
				continue
			}
			name := genName1()
			if isPrefixConflict(name) {
				continue // a file system cannot hold an object whose name is a path prefix of another
			}
			data := []byte(fmt.Sprintf("content-%d-%d", i, t.Draw(1000)))
			if t.Bool(1, 5) {
				data = nil
			}
			// an existing object rewritten with less in it, or with much more
			if len(model) > 0 && t.Bool(1, 4) {
				keys := sortedKeys(model)
				name = keys[t.Draw(len(keys))]
				switch t.Draw(3) {
				case 0:
					data = []byte("s")
				case 1:
					data = nil
				case 2:
					data = []byte(strings.Repeat("longer content ", 50+t.Draw(200)))
				}
				s.Probe("explicit-overwrite")
			}
			obj := bh.Object(name)
			// every constructed object name resolves inside the bucket's directory
			if fo, ok := obj.(*FSObject); ok {
				rel, err := filepath.Rel(bucketDir, fo.Filename())
				if err != nil || strings.HasPrefix(rel, "..") {
					fail("escapes-bucket", "object %q resolves to %s, outside %s", name, fo.Filename(), bucketDir)
					break
				}
			}
			w, err := obj.NewWriter(ctx)
			if err != nil {
				fail("write-failed", "writing %q: %v", name, err)
				break
			}
			if len(data) > 0 && t.Bool(1, 4) {
				// binary content of several buffers, written in a few calls
				big := make([]byte, 5000+t.Draw(70000))
				for k := range big {
					big[k] = byte(k*31 + i)
				}
				data = big
				for off, parts := 0, 1+t.Draw(3); off < len(data); {
					n := (len(data)-off)/parts + 1
					if off+n > len(data) || parts == 1 {
						n = len(data) - off
					}
					w.Write(data[off : off+n])
					off += n
					parts--
					if parts < 1 {
						parts = 1
					}
				}
				s.Probe("written-in-several-calls")
			} else {
				w.Write(data)
			}
			if t.Bool(1, 5) {
				// a listing taken while this object is being written: whether the
				// object itself shows up is not judged, every other name is
				var got, want []string
				it := bh.Objects(ctx, "")
				for {
					n, err := it.Next()
					if err != nil {
						break
					}
					if n != name {
						got = append(got, n)
					}
				}
				for n := range model {
					if n != name {
						want = append(want, n)
					}
				}
				sort.Strings(got)
				sort.Strings(want)
				if !reflect.DeepEqual(got, want) && !(len(got) == 0 && len(want) == 0) {
					fail("list", "a listing taken while %q was being written returned %v besides it, the stored names are %v", name, got, want)
					w.Close()
					break
				}
				s.Probe("listing-during-write")
			}
			// Another object is written while this writer is still open (two uploads,
			// a merge and a chart: the services keep several writers alive at once).
			if t.Bool(1, 5) {
				other := genName()
				if other != name && !isPrefixConflict(other) && !strings.HasPrefix(other, name+"/") && !strings.HasPrefix(name, other+"/") {
					od := []byte(fmt.Sprintf("meanwhile-%d-%d", i, t.Draw(1000)))
					if w2, err := bh.Object(other).NewWriter(ctx); err == nil {
						w2.Write(od)
						if err := w2.Close(); err != nil {
							fail("write-failed", "closing %q: %v", other, err)
							w.Close()
							break
						}
						model[other] = od
						ops = append(ops, "write "+other+" (while "+name+" is open)")
						s.Probe("two-writers-open")
					}
				}
			}
			if err := w.Close(); err != nil {
				fail("write-failed", "closing %q: %v", name, err)
				break
			}
			if t.Bool(1, 4) {
				w.Close() // closing again (a deferred Close after an explicit one, as the services do) changes nothing
				s.Probe("closed-twice")
			}
			model[name] = data
			ops = append(ops, "write "+name)
			s.Logf("op", "write %s (%d bytes)", name, len(data))
		case 2: // read
			name := genName()
			if len(model) > 0 && t.Bool(2, 3) {
				keys := sortedKeys(model)
				name = keys[t.Draw(len(keys))]
			}
			r, err := bh.Object(name).NewReader(ctx)
			want, ok := model[name]
			if !ok {
				if isPrefixConflict(name) {
					if r != nil {
						r.Close()
					}
					continue // the name of a directory: not an object name of this history
				}
				if !errors.Is(err, ErrObjectNotExist) {
					fail("absent-read", "reading absent object %q: err=%v, want not-exist", name, err)
				}
				if r != nil {
					r.Close()
				}
				break
			}
			if err != nil {
				fail("read-failed", "reading %q: %v", name, err)
				break
			}
			got, _ := io.ReadAll(r)
			r.Close()
			if string(got) != string(want) {
				fail("round-trip", "object %q: read %q, wrote %q", name, got, want)
			}
			ops = append(ops, "read "+name)
			s.Logf("op", "read %s", name)
		case 3: // list with a prefix
			prefix := ""
			switch t.Draw(4) {
			case 0, 1:
				if len(model) > 0 {
					keys := sortedKeys(model)
					k := keys[t.Draw(len(keys))]
					prefix = k[:t.Draw(len(k)+1)]
				}
			case 2:
				prefix = comps[t.Draw(len(comps))] + []string{"", "/", "."}[t.Draw(3)]
			case 3: // the prefixes the services use, and their neighbours
				prefix = refcal.Date(dayPool[t.Draw(len(dayPool))]) + []string{"", "/", ".", "_", ".json", "-"}[t.Draw(6)]
			}
			it := bh.Objects(ctx, prefix)
			var got []string
			// Sometimes a second listing is started and read while this one is
			// still being read (a handler that lists inside a loop over a
			// listing, or two handlers sharing the bucket).
			nestAfter := -1
			if t.Bool(1, 3) {
				nestAfter = t.Draw(4)
			}
			for i := 0; ; i++ {
				if i == nestAfter {
					p2 := ""
					if len(model) > 0 {
						keys := sortedKeys(model)
						k := keys[t.Draw(len(keys))]
						p2 = k[:t.Draw(len(k)+1)]
					}
					it2 := bh.Objects(ctx, p2)
					var got2, want2 []string
					for {
						n, err := it2.Next()
						if err != nil {
							break
						}
						got2 = append(got2, n)
					}
					for n := range model {
						if strings.HasPrefix(n, p2) {
							want2 = append(want2, n)
						}
					}
					sort.Strings(got2)
					sort.Strings(want2)
					if !reflect.DeepEqual(got2, want2) && !(len(got2) == 0 && len(want2) == 0) {
						fail("list", "listing prefix %q (started while another listing was being read) returned %v, the stored names with that prefix are %v", p2, got2, want2)
					}
					s.Probe("overlapping-listings")
				}
				n, err := it.Next()
				if errors.Is(err, ErrObjectIteratorDone) {
					break
				}
				if err != nil {
					fail("list-failed", "listing %q: %v", prefix, err)
					break
				}
				got = append(got, n)
			}
			var want []string
			for n := range model {
				if strings.HasPrefix(n, prefix) {
					want = append(want, n)
				}
			}
			sort.Strings(got)
			sort.Strings(want)
			if !reflect.DeepEqual(got, want) && !(len(got) == 0 && len(want) == 0) {
				fail("list", "listing prefix %q returned %v, the stored names with that prefix are %v", prefix, got, want)
			}
			ops = append(ops, "list "+prefix)
			s.Logf("op", "list %q -> %d", prefix, len(got))
		}
	}
	if viol == nil {
		if b, err := os.ReadFile(filepath.Join(root, bname+"-old", "2024-01-08", "0.5.json")); err != nil || string(b) != "twin" {
			fail("other-bucket-touched", "an object of the bucket %s-old changed", bname)
		}
		if b, err := os.ReadFile(filepath.Join(root2, bname, "2024-01-08", "0.5.json")); err != nil || string(b) != "second root" {
			fail("other-bucket-touched", "the bucket of the same name under another storage directory changed or was never written (%v)", err)
		}
		if b, err := os.ReadFile(filepath.Join(root, "other", "keep.json")); err != nil || string(b) != "keep" {
			fail("other-bucket-touched", "an object of another bucket changed")
		}
	}
	c.Sample = map[string]any{"bucket": bname, "ops": ops}
	return viol
}

func sortedKeys(m map[string][]byte) []string {
	var ks []string
	for k := range m {
		ks = append(ks, k)
	}
	sort.Strings(ks)
	return ks
}
