package telemetry

// Harness H7: the start world. N starter processes call the real Start
// concurrently; process creation, environment, exit and the clock are
// simulated; the spawned telemetry child runs the real child path (marker
// rewrite, counter.Open, upload.Run), and the stubbed config download spawns a
// descendant which calls Start again, as the real `go mod download` would.

import (
	"crypto/sha256"
	"encoding/json"
	"errors"
	"fmt"
	"io"
	"log"
	"os"
	"os/exec"
	"path/filepath"
	"sort"
	"strings"
	"syscall"
	"testing"
	"time"

	icounter "golang.org/x/telemetry/internal/counter"
	"golang.org/x/telemetry/internal/crashmonitor"
	itelemetry "golang.org/x/telemetry/internal/telemetry"
	"golang.org/x/telemetry/internal/verifsim/hlib"
	"golang.org/x/telemetry/internal/verifsim/simrt"
)

func TestVerifSim(t *testing.T) {
	devnull, _ := os.OpenFile(os.DevNull, os.O_WRONLY, 0)
	os.Stderr = devnull
	log.SetOutput(io.Discard)
	hlib.Main("h7", map[string]hlib.Scenario{"C16": scenarioStart})
}

type starter struct {
	cfg        Config
	marker     string // value of the child marker in the process's environment when it was created
	tainted    bool   // the process is a telemetry child or a descendant of one
	viaMaybe   bool   // the program calls MaybeChild before Start
	appReached bool   // MaybeChild returned
}

func dirHash(dir string) map[string][32]byte {
	out := map[string][32]byte{}
	filepath.Walk(dir, func(p string, info os.FileInfo, err error) error {
		if err != nil {
			return nil
		}
		if info.IsDir() {
			out[p+"/"] = [32]byte{}
			return nil
		}
		b, _ := os.ReadFile(p)
		out[p] = sha256.Sum256(b)
		return nil
	})
	return out
}

func scenarioStart(c *hlib.RunCtx) *hlib.Violation {
	t := c.Tape
	start := time.Date(2024, 3, 1, 12, 0, 0, 0, time.UTC).Add(time.Duration(t.Draw(1000)) * time.Hour)
	// One run in five plays on a machine whose local zone changes its offset
	// about now (clocks spring forward, or fall back): a calendar day is then 23
	// or 25 hours long, the token period is 24 hours all the same.
	var dst *time.Location
	if t.Bool(1, 5) {
		// (the draws do not depend on whether this host has the zone data: a tape
		// means the same run everywhere, with or without the zone)
		name := []string{"America/New_York", "Europe/Berlin"}[t.Draw(2)]
		change := []time.Time{time.Date(2024, 3, 10, 7, 0, 0, 0, time.UTC), time.Date(2024, 11, 3, 6, 0, 0, 0, time.UTC),
			time.Date(2024, 3, 31, 1, 0, 0, 0, time.UTC), time.Date(2024, 10, 27, 1, 0, 0, 0, time.UTC)}[t.Draw(4)]
		start = change.Add(time.Duration(t.Draw(30*60)) * time.Minute)
		if l, err := time.LoadLocation(name); err == nil {
			dst = l
		}
	}
	s := simrt.New(t, c.Dir, start)
	if dst != nil {
		s.SetZone(dst)
		s.Probe("zone-with-a-clock-change")
	}
	s.KeepTrace = true
	s.TraceCap = 6000
	if c.Trace {
		s.TraceCap = 300000
	}
	s.PermuteMaps = true
	c.Sim = s
	simrt.Attach(s)
	defer simrt.Detach()
	icounter.VerifResetDefault()
	defer func() {
		icounter.VerifDefaultFile().VerifClose()
		icounter.VerifResetDefault()
	}()
	crashmonitor.VerifParentCalls, crashmonitor.VerifChildCalls = 0, 0

	var viol *hlib.Violation
	fail := func(inv, format string, args ...any) {
		if viol == nil {
			viol = hlib.Violationf("C16", inv, format, args...)
			s.Logf("VIOLATION", "%s: %s", inv, viol.Message)
			s.Stop = true
		}
	}

	tele := filepath.Join(c.Dir, "tele")
	local := filepath.Join(tele, "local")
	tokenPath := filepath.Join(local, "upload.token")
	// The per-user default directory is a different one from the directory the
	// applications configure, and may say something else about the mode: only
	// the configured directory counts.
	defaultDir := filepath.Join(c.Dir, "userdefault")
	itelemetry.Default = itelemetry.NewDir(defaultDir)
	os.MkdirAll(defaultDir, 0777)
	switch t.Draw(4) {
	case 1:
		os.WriteFile(filepath.Join(defaultDir, "mode"), []byte("off 2024-01-01"), 0666)
	case 2:
		os.WriteFile(filepath.Join(defaultDir, "mode"), []byte("on 2024-01-01"), 0666)
	case 3:
		os.WriteFile(filepath.Join(defaultDir, "mode"), []byte("local"), 0666)
	}

	// One run in six: the applications configure no directory, so the per-user
	// default directory is the one that counts (its mode file, its token).
	useDefault := t.Bool(1, 6)
	if useDefault {
		os.Remove(filepath.Join(defaultDir, "mode"))
		tele = defaultDir
		local = filepath.Join(tele, "local")
		tokenPath = filepath.Join(local, "upload.token")
		s.Probe("default-directory-is-operative")
	}
	mode := []string{"on", "local", "off"}[t.Draw(3)]
	modeKind := t.Biased(3, 3, 4) // 0 written normally, 1 missing file (= local), 2 garbage (= whatever it parses to)
	os.MkdirAll(tele, 0777)
	switch modeKind {
	case 0:
		// as the commands write it, or written by hand (no date, white space around it)
		content := []string{mode + " 2024-01-01", mode, mode + "\n", mode + " 2024-01-01\n", mode + "\r\n", " " + mode, mode + " ",
			// a date that is not YYYY-MM-DD (written by hand, by another tool): the first word is still the mode
			mode + " 2024-1-5", mode + " 2024/01/05", mode + " 2024-01-05T00:00:00Z"}[t.Biased(10, 1, 2)]
		os.WriteFile(filepath.Join(tele, "mode"), []byte(content), 0666)
	case 1:
		mode = "local"
	case 2:
		os.WriteFile(filepath.Join(tele, "mode"), []byte("bogus"), 0666)
		mode = "bogus"
	}
	tokenState := t.Draw(3) // 0 absent, 1 fresh, 2 stale
	family := c.Flag("family")
	if family == "within24h" && tokenState == 2 {
		tokenState = 0
	}
	tokenAge := time.Duration(0)
	if tokenState != 0 {
		os.MkdirAll(local, 0777)
		os.WriteFile(tokenPath, nil, 0666)
		if tokenState == 1 {
			tokenAge = time.Duration(t.Draw(12*60)) * time.Minute // at most 12 h old
			if t.Bool(1, 3) {
				tokenAge = 24*time.Hour - 2*time.Minute - time.Duration(t.Draw(12*60))*time.Minute // up to just under the period
			}
		} else {
			tokenAge = 24*time.Hour + time.Duration(t.Draw(3*24*60))*time.Minute - time.Duration(t.Draw(2))*time.Nanosecond
			if t.Bool(1, 4) {
				tokenAge = 24 * time.Hour // exactly the period
			}
		}
		s.SetMtime(tokenPath, start.Add(-tokenAge))
	}

	// the config download of the real uploader executes `go mod download`, a
	// process that itself may use telemetry: it calls Start with the inherited
	// environment.
	// (configstore.Download is the real one; the `go` command is a process of the
	// simulated process table that prints the directory of an empty configuration.)
	downloadFails := t.Bool(1, 5)
	s.RunFn = func(cmd *exec.Cmd) (bool, error) {
		if len(cmd.Args) < 3 || cmd.Args[0] != "go" || cmd.Args[1] != "mod" || cmd.Args[2] != "download" {
			return false, nil
		}
		if err := simrt.CmdStart(cmd); err != nil {
			return true, err
		}
		if err := simrt.CmdWait(cmd); err != nil {
			return true, err
		}
		if downloadFails {
			// no network, the module proxy is down: the upload fails, the token stays
			if cmd.Stdout != nil {
				cmd.Stdout.Write([]byte(`{"Error":"module lookup disabled by GOPROXY=off"}`))
			}
			s.Probe("config-download-fails")
			return true, errors.New("exit status 1")
		}
		mod := filepath.Join(c.Dir, "modcache", "config@v0.1.0")
		os.MkdirAll(mod, 0777)
		os.WriteFile(filepath.Join(mod, "config.json"), []byte("{}"), 0666)
		if cmd.Stdout != nil {
			js, _ := json.Marshal(map[string]string{"Dir": mod, "Version": "v0.1.0"})
			cmd.Stdout.Write(js)
		}
		return true, nil
	}

	// What can go wrong in the parent after it took the token: the debug
	// directory exists but the log file cannot be opened, or the fork fails.
	debugState := t.Biased(3, 3, 4) // 0 no debug directory, 1 debug directory, 2 debug directory whose sidecar.log is a directory
	if debugState > 0 && mode != "off" {
		os.MkdirAll(filepath.Join(tele, "debug"), 0777)
		if debugState == 2 {
			os.MkdirAll(filepath.Join(tele, "debug", "sidecar.log"), 0777)
		}
		s.Probe(fmt.Sprintf("debug-dir-%d", debugState))
	}
	var excused *simrt.Proc // the process whose read of the mode file failed (mode off)
	failStart := -1
	if t.Bool(1, 5) {
		failStart = t.Draw(3) // the n-th start of a telemetry child fails
	}
	nstarts := 0
	s.StartFailFn = func(parent *simrt.Proc, cmd *exec.Cmd) error {
		if len(cmd.Args) == 2 && cmd.Args[1] == "** telemetry **" {
			nstarts++
			if nstarts-1 == failStart {
				return syscall.EAGAIN
			}
		}
		return nil
	}

	// One file-system call of the run may fail (the token's stat, its exclusive
	// creation, the removal of a stale token, the mode file's read, ...).
	if t.Bool(1, 5) {
		failIdx := t.Draw(60)
		errno := []syscall.Errno{syscall.EACCES, syscall.EIO, syscall.ENOSPC, syscall.EROFS, syscall.EMFILE, syscall.ENOENT}[t.Draw(6)]
		s.FaultFn = func(c *simrt.FsCall) error {
			if c.Idx == failIdx {
				if strings.HasSuffix(c.Path, "/mode") && mode == "off" {
					// an unreadable mode file behaves as local (C02): the process whose
					// read failed did not see "off"; every other process did
					mode = "off-but-unreadable-once"
					excused = c.Proc
				}
				return errno
			}
			return nil
		}
		s.Probe("one-call-fails")
	} else if tokenState == 2 && t.Bool(1, 4) {
		// ... or the stale token cannot be removed, however often it is tried (the
		// directory became read-only for this user): nobody acquires it, everybody returns
		errno := []syscall.Errno{syscall.EACCES, syscall.EROFS, syscall.EPERM}[t.Draw(3)]
		s.FaultFn = func(c *simrt.FsCall) error {
			if c.Op == "remove" && strings.HasSuffix(c.Path, "upload.token") {
				return errno
			}
			return nil
		}
		s.Probe("token-cannot-be-removed")
	}

	info := map[*simrt.Proc]*starter{}
	var spawnedTelemetry []*simrt.Proc
	tokenCreates := map[*simrt.Proc]int{}
	var acquisitions []time.Time
	type acq struct {
		at           time.Time
		idx, statIdx int // call-log index of the exclusive create, and of that process's last look at the token before it
		proc         *simrt.Proc
	}
	var acqs []acq
	lastTokenStat := map[*simrt.Proc]int{}
	runStart := func(p *simrt.Proc) {
		st := info[p]
		s.Spawn(p, p.Name, func() {
			if st.viaMaybe {
				// the documented entry for programs that cannot call Start first
				MaybeChild(st.cfg)
				st.appReached = true
			}
			res := Start(st.cfg)
			res.Wait()
		})
	}
	s.SpawnFn = func(parent, child *simrt.Proc) {
		pst := info[parent]
		if pst == nil {
			child.Exited = true
			return
		}
		isTelemetryChild := len(child.Args) == 2 && child.Args[1] == "** telemetry **"
		cst := &starter{cfg: pst.cfg, marker: child.Env[telemetryChildVar], tainted: pst.tainted || isTelemetryChild || child.Env[telemetryChildVar] != ""}
		cst.viaMaybe = t.Bool(1, 3)
		info[child] = cst
		if isTelemetryChild {
			child.Name = "sidecar"
			spawnedTelemetry = append(spawnedTelemetry, child)
			// ---- the decision table, checked at the moment of the spawn
			if mode == "off" {
				fail("spawn-in-off", "mode is off but process %d launched a telemetry child", parent.ID)
			}
			if pst.tainted {
				fail("recursive-spawn", "process %d is a telemetry child or a descendant of one (marker %q) and launched another telemetry child", parent.ID, pst.marker)
			}
			upl := child.Env[telemetryUploadVar] == "1"
			if upl && tokenCreates[parent] == 0 {
				fail("upload-without-token", "process %d launched an uploading child without having acquired the upload token", parent.ID)
			}
			if upl && !pst.cfg.Upload {
				fail("upload-not-requested", "process %d launched an uploading child although Upload was not requested", parent.ID)
			}
			if !upl && !pst.cfg.ReportCrashes {
				fail("spawn-without-reason", "process %d launched a telemetry child with neither crash reporting nor an upload token", parent.ID)
			}
			if child.Env[telemetryChildVar] != "1" {
				fail("child-marker", "telemetry child launched with marker %q", child.Env[telemetryChildVar])
			}
		} else {
			child.Name = "go-mod-download"
		}
		runStart(child)
	}

	seenCalls := 0
	s.AfterStep = func(tk *simrt.Task) {
		if viol != nil {
			return
		}
		if tk.Panic != nil {
			fail("panic", "task %s panicked: %v\n%s", tk.Name, tk.Panic, tk.PanicStack)
			return
		}
		for ; seenCalls < len(s.CallLog); seenCalls++ {
			fc := s.CallLog[seenCalls]
			if fc.Proc == nil {
				continue
			}
			if fc.Op == "stat" && strings.HasSuffix(fc.Path, "upload.token") {
				lastTokenStat[fc.Proc] = 0
				if fc.Err == nil {
					lastTokenStat[fc.Proc] = fc.Idx // it saw a token (a look that finds none says nothing: a process that saw a stale token may have removed a fresh one meanwhile)
				}
			}
			if fc.Op == "create-excl" && fc.Err == nil && strings.HasSuffix(fc.Path, "upload.token") {
				tokenCreates[fc.Proc]++
				acquisitions = append(acquisitions, s.NowT())
				acqs = append(acqs, acq{at: s.NowT(), idx: fc.Idx, statIdx: lastTokenStat[fc.Proc], proc: fc.Proc})
			}
			if mode == "off" && fc.Mutating && fc.Err == nil {
				fail("write-in-off", "mode is off but process %d performed %s on %s", fc.Proc.ID, fc.Op, fc.Path)
			}
			// a child must have rewritten its marker before anything else runs
			// a process in the sidecar's role rewrites its marker before it touches
			// the file system or starts anything (a process it starts meanwhile
			// would take itself for the sidecar)
			// (reads are harmless: what the statement forbids is a descendant of a
			// telemetry child launching another, and anything this process starts while
			// its marker still says 1 would take itself for the sidecar; judged for calls
			// that change something)
			if st := info[fc.Proc]; st != nil && st.marker == "1" && fc.Proc.Env[telemetryChildVar] == "1" && fc.Mutating {
				fail("acts-before-marker-rewrite", "process %d runs as the telemetry child and performed %s on %s while its marker was still 1", fc.Proc.ID, fc.Op, fc.Path)
			}
		}
	}

	within := 24*time.Hour - 90*time.Second - tokenAge // what is left of the token period (within24h family)
	before := dirHash(tele)
	n := 2 + t.Draw(7)
	var desc []string
	for i := 0; i < n; i++ {
		p := s.NewProc(fmt.Sprintf("app%d", i), nil)
		marker := []string{"", "1", "2", "junk", "0", "3", "01", "1 ", "true", "11"}[t.Biased(10, 1, 2)]
		if marker != "" {
			p.Env[telemetryChildVar] = marker
			if t.Bool(1, 2) {
				p.Env[telemetryUploadVar] = "1"
			}
		} else if t.Bool(1, 3) {
			// the variables present but empty in the application's environment
			p.Env[telemetryChildVar] = ""
			if t.Bool(1, 2) {
				p.Env[telemetryUploadVar] = ""
			}
		} else if t.Bool(1, 6) {
			// an ordinary application that inherited the upload variable alone
			// (started from a shell or a tool that had it set)
			p.Env[telemetryUploadVar] = "1"
			s.Probe("inherited-upload-variable")
		}
		st := &starter{cfg: Config{ReportCrashes: t.Bool(1, 2), Upload: t.Bool(2, 3), TelemetryDir: tele, UploadURL: "http://telemetry.sim/upload"}, marker: marker, tainted: marker != ""}
		if useDefault {
			st.cfg.TelemetryDir = ""
		}
		if t.Bool(1, 5) {
			// the documented way to try out a later upload: the token's age has nothing to do with it
			st.cfg.UploadStartTime = start.Add(time.Duration(1+t.Draw(30)) * 24 * time.Hour)
		}
		st.viaMaybe = t.Bool(1, 3)
		info[p] = st
		desc = append(desc, fmt.Sprintf("app%d marker=%q crash=%v upload=%v maybechild=%v", i, marker, st.cfg.ReportCrashes, st.cfg.Upload, st.viaMaybe))
		runStart(p)
		// some starters begin later
		if family != "within24h" && t.Bool(1, 4) {
			s.RunSolo(s.Tasks[len(s.Tasks)-1], 1+t.Draw(40))
			s.Advance(time.Duration(t.Draw(30)) * time.Hour)
		} else if t.Bool(1, 3) {
			d := time.Duration(t.Draw(50)) * time.Minute
			if family == "within24h" {
				// the whole run stays inside one token period, but may use all of it
				if t.Bool(1, 3) && within > time.Minute {
					d = time.Duration(t.Draw(int(within/time.Minute))) * time.Minute
				}
				if d > within {
					d = within
				}
				within -= d
			}
			s.Advance(d)
		}
	}
	switch t.Draw(4) {
	case 0:
		s.Strat = simrt.StratUniform
	case 1:
		s.Strat = simrt.StratBursty
	case 2:
		s.SetPCT(1+t.Draw(3), 200)
	case 3:
		s.SetDelay([]string{"fs:stat", "fs:remove", "fs:create-excl", "fs:readfile", "proc:start", "fs:mkdirall"}, 1+t.Rng.Intn(3))
	}
	c.Sample = map[string]any{"mode": mode, "token": []string{"absent", "fresh", "stale"}[tokenState], "token_age": tokenAge.String(), "starters": desc, "family": family}
	s.MaxSteps = 400000
	capped := s.Run()
	if viol == nil && capped {
		fail("waits-forever", "the starters did not finish within the step budget")
	}
	if viol == nil {
		for _, tk := range s.Live() {
			fail("waits-forever", "task %s of process %d is blocked at %s", tk.Name, tk.Proc.ID, tk.Label)
			break
		}
	}
	if viol != nil {
		return viol
	}
	// only a process marked "1" takes the sidecar's role: any other one that
	// enters through MaybeChild comes back out of it and goes on as the application.
	var procs []*simrt.Proc
	for p := range info {
		procs = append(procs, p)
	}
	sort.Slice(procs, func(i, j int) bool { return procs[i].ID < procs[j].ID })
	for _, p := range procs {
		st := info[p]
		if st.viaMaybe && st.marker != "1" && !st.appReached {
			fail("sidecar-role", "process %d (%s) started with marker %q, entered through MaybeChild and never returned from it: it ran as a telemetry child", p.ID, p.Name, st.marker)
		}
		if st.viaMaybe && st.marker != "1" {
			s.Probe("maybechild-marker-" + map[bool]string{true: "set", false: "unset"}[st.marker != ""])
		}
	}
	// a telemetry child rewrites its marker to 2
	for _, ch := range spawnedTelemetry {
		if ch.Env[telemetryChildVar] != "2" {
			fail("marker-not-rewritten", "telemetry child %d ended with marker %q", ch.ID, ch.Env[telemetryChildVar])
		}
	}
	if mode == "off" {
		after := dirHash(tele)
		if len(after) != len(before) {
			fail("write-in-off", "mode is off but the telemetry directory changed (%d -> %d entries)", len(before), len(after))
		}
		for p, h := range before {
			if after[p] != h {
				fail("write-in-off", "mode is off but %s changed", s.Rel(p))
			}
		}
		if len(spawnedTelemetry) > 0 {
			fail("spawn-in-off", "mode is off but %d children were launched", len(spawnedTelemetry))
		}
	}
	if mode == "off-but-unreadable-once" {
		// the off clauses still hold for every process but the excused one
		for _, fc := range s.CallLog {
			if fc.Mutating && fc.Err == nil && fc.Proc != excused && strings.HasPrefix(fc.Path, filepath.Base(tele)+"/") {
				fail("write-in-off", "mode is off (one other process could not read the mode file) but process %d performed %s on %s", fc.Proc.ID, fc.Op, fc.Path)
				break
			}
		}
		for _, ch := range spawnedTelemetry {
			if ch.Parent != excused {
				fail("spawn-in-off", "mode is off (one other process could not read the mode file) but process %d launched a child", ch.Parent.ID)
			}
		}
		s.Probe("off-clauses-for-the-other-processes")
	}
	// In every family: an acquisition leaves a fresh token behind, so the next one
	// is at least the token period later.
	// (A process that looked at the token before that acquisition may have seen a
	// stale one: the statement's clause is for "no stale token present".)
	for i := 1; i < len(acqs); i++ {
		for j := 0; j < i; j++ {
			if d := acqs[i].at.Sub(acqs[j].at); acqs[i].statIdx > acqs[j].idx && d < 24*time.Hour && acqs[i].proc != acqs[j].proc {
				fail("token-acquired-twice", "the upload token was acquired at %s; process %d looked at that fresh token afterwards and acquired it again %s later, within the token period", acqs[j].at.Format(time.RFC3339), acqs[i].proc.ID, d)
			}
		}
	}
	// with no stale token present, at most one acquisition within 24 hours
	if family == "within24h" {
		limit := 1
		if tokenState == 1 {
			limit = 0
		}
		if len(acquisitions) > limit {
			fail("token-acquired-twice", "no stale token was present, yet the upload token was acquired %d times within %s (initial token: %s)", len(acquisitions), s.NowT().Sub(start), []string{"absent", "fresh", "stale"}[tokenState])
		}
		if s.NowT().Sub(start)+tokenAge >= 24*time.Hour {
			panic("within24h family ran longer than the token period")
		}
	}
	s.Probe(fmt.Sprintf("mode-%s", mode))
	s.Probe(fmt.Sprintf("token-%d", tokenState))
	if len(spawnedTelemetry) > 0 {
		s.Probe("spawned")
	}
	if len(acquisitions) > 0 {
		s.Probe("token-acquired")
	}
	return viol
}

type itelemetryUploadConfig = itelemetry.UploadConfig
