// Package hlib is shared by all simulation harnesses: command line, the
// explore / replay loops, violations and the per-worker summary that the
// vcheck driver aggregates.
package hlib

import (
	"bufio"
	"encoding/json"
	"flag"
	"fmt"
	"os"
	"path/filepath"
	"runtime"
	"runtime/debug"
	"sort"
	"strings"
	"time"

	"golang.org/x/telemetry/internal/verifsim/simrt"
)

// Violation describes a broken invariant of a property.
type Violation struct {
	Property  string   `json:"property"`
	Invariant string   `json:"invariant"` // short stable identifier of the clause
	Message   string   `json:"message"`
	Window    string   `json:"window,omitempty"` // known-finding window this violation lies in, if the harness can tell
	Trace     []string `json:"trace,omitempty"`
}

// RunCtx is what a scenario receives.
type RunCtx struct {
	Prop    string
	Tape    *simrt.Tape
	Dir     string // private scratch directory of this run (removed afterwards)
	Run     int
	Trace   bool
	Flags   map[string]string // scenario options from the driver (e.g. quarantine=off)
	Sim     *simrt.Sim        // set by the scenario so that the loop can collect statistics
	Notes   map[string]int    // scenario-level counters (probes that are not in Sim)
	Sample  any               // optional human readable description of the generated case
	StateHs map[uint64]bool   // abstract states visited
	Inconcl bool
}

func (c *RunCtx) Note(k string) { c.Notes[k]++ }

func (c *RunCtx) Flag(k string) string { return c.Flags[k] }

// Scenario runs one simulated execution and returns nil if every invariant held.
type Scenario func(c *RunCtx) *Violation

type RunResult struct {
	Run       int            `json:"run"`
	Seed      uint64         `json:"seed"`
	Hash      uint64         `json:"hash"`
	Steps     int            `json:"steps"`
	Violation *Violation     `json:"violation,omitempty"`
	Tape      []uint32       `json:"tape,omitempty"`
	Sample    any            `json:"sample,omitempty"`
	Trace     []string       `json:"trace,omitempty"`
	Probes    map[string]int `json:"probes,omitempty"`
	Faults    map[string]int `json:"faults,omitempty"`
}

// Summary is what one worker prints when it finishes exploring.
type Summary struct {
	Prop         string         `json:"prop"`
	From, To     int            `json:"from_to"`
	Runs         int            `json:"runs"`
	Steps        int64          `json:"steps"`
	Hashes       []uint64       `json:"hashes"`
	Nontrivial   []uint64       `json:"nontrivial"`
	States       []uint64       `json:"states"`
	Probes       map[string]int `json:"probes"`
	Faults       map[string]int `json:"faults"`
	Notes        map[string]int `json:"notes"`
	SimSeconds   float64        `json:"sim_seconds"`
	Inconclusive int            `json:"inconclusive"`
	Samples      []RunResult    `json:"samples"`
	Violation    *RunResult     `json:"violation,omitempty"`
	WallS        float64        `json:"wall_s"`
	FsCalls      int64          `json:"fs_calls"`
	Requests     int64          `json:"requests"`
	Kills        int64          `json:"kills"`
}

// ReplayFile is the on-disk replay format.
type ReplayFile struct {
	Property  string            `json:"property"`
	Harness   string            `json:"harness"`
	Seed      uint64            `json:"seed"`
	Run       int               `json:"run"`
	Flags     map[string]string `json:"flags,omitempty"`
	Tape      []uint32          `json:"tape"`
	Violation *Violation        `json:"violation,omitempty"`
	Trace     []string          `json:"trace,omitempty"`
	Note      string            `json:"note,omitempty"`
}

func mix(seed uint64, prop string, run int) uint64 {
	h := seed*0x9e3779b97f4a7c15 + 0x1234567
	for i := 0; i < len(prop); i++ {
		h = (h ^ uint64(prop[i])) * 1099511628211
	}
	h ^= uint64(run) * 0xbf58476d1ce4e5b9
	h = (h ^ (h >> 31)) * 0x94d049bb133111eb
	return h ^ (h >> 29)
}

// ErrOut is the process's original standard error (a harness may redirect
// os.Stderr to silence the code under test).
var ErrOut = os.Stderr

var scratchBase string

// ScratchBase returns this worker's scratch directory.
func ScratchBase() string {
	if scratchBase == "" {
		base := os.Getenv("VERIF_SCRATCH")
		if base == "" {
			base = "/dev/shm"
		}
		scratchBase = filepath.Join(base, fmt.Sprintf("vsim%d", os.Getpid()))
		os.MkdirAll(scratchBase, 0777)
	}
	return scratchBase
}

func runOne(prop string, sc Scenario, tape *simrt.Tape, run int, trace bool, flags map[string]string) (res RunResult, ctx *RunCtx) {
	dir := filepath.Join(ScratchBase(), fmt.Sprintf("r%d", run))
	os.RemoveAll(dir)
	os.MkdirAll(dir, 0777)
	simrt.ResetSchedTick() // the loop budget of code that runs on the scheduler goroutine is per run
	own := map[string]string{} // a scenario may set flags of its own: never shared between runs
	for k, v := range flags {
		own[k] = v
	}
	ctx = &RunCtx{Prop: prop, Tape: tape, Dir: dir, Run: run, Trace: trace, Flags: own, Notes: map[string]int{}, StateHs: map[uint64]bool{}}
	var v *Violation
	func() {
		defer func() {
			if r := recover(); r != nil {
				// A panic on the scheduler goroutine is a bug in the harness, never a finding.
				simrt.Detach()
				fmt.Fprintf(ErrOut, "HARNESS PANIC prop=%s run=%d: %v\n%s\n", prop, run, r, debug.Stack())
				os.Exit(3)
			}
		}()
		v = sc(ctx)
	}()
	simrt.Detach()
	res = RunResult{Run: run, Violation: v, Sample: ctx.Sample}
	if s := ctx.Sim; s != nil {
		res.Hash = s.Hash
		res.Steps = s.Steps
		res.Probes = s.Probes
		res.Faults = s.FaultsHit
		if v != nil || trace {
			res.Trace = s.Trace
		}
		if v != nil && len(v.Trace) == 0 {
			n := len(s.Trace)
			if n > 60 {
				v.Trace = append([]string{"..."}, s.Trace[n-60:]...)
			} else {
				v.Trace = s.Trace
			}
		}
	}
	os.RemoveAll(dir)
	return res, ctx
}

// Main is the entry point shared by every harness binary.
func Main(harness string, scenarios map[string]Scenario) {
	var (
		prop    = flag.String("prop", "", "property id")
		seed    = flag.Uint64("seed", 1, "base seed")
		from    = flag.Int("from", 0, "first run index")
		to      = flag.Int("to", 1, "one past the last run index")
		replay  = flag.String("replay", "", "replay file")
		batch   = flag.Bool("batch", false, "read replay tapes (one JSON array per line) from stdin, answer one JSON line each")
		trace   = flag.Bool("trace", false, "keep and print the full trace")
		flagStr = flag.String("flags", "", "comma separated k=v scenario options")
		budget  = flag.Duration("budget", 0, "stop exploring after this wall-clock time")
		recycle = flag.Int("maxruns", 0, "stop after this many runs (worker recycling)")
	)
	// When hosted in a test binary the test flags are present too; ignore them.
	args := os.Args[1:]
	for i, a := range args {
		if a == "--" {
			args = args[i+1:]
			break
		}
	}
	fs := flag.CommandLine
	fs.Parse(filterArgs(args))
	runtime.GOMAXPROCS(envInt("VERIF_GOMAXPROCS", 1))
	debug.SetGCPercent(400)

	flags := map[string]string{}
	for _, kv := range strings.Split(*flagStr, ",") {
		if k, v, ok := strings.Cut(kv, "="); ok {
			flags[k] = v
		}
	}
	sc, ok := scenarios[*prop]
	if !ok {
		fmt.Fprintf(os.Stderr, "%s: unknown property %q\n", harness, *prop)
		os.Exit(2)
	}
	defer os.RemoveAll(ScratchBase())
	out := bufio.NewWriter(os.Stdout)
	defer out.Flush()
	enc := json.NewEncoder(out)

	if *batch {
		in := bufio.NewScanner(os.Stdin)
		in.Buffer(make([]byte, 1<<20), 1<<28)
		n := 0
		for in.Scan() {
			var vals []uint32
			if err := json.Unmarshal(in.Bytes(), &vals); err != nil {
				fmt.Fprintf(os.Stderr, "bad tape line: %v\n", err)
				os.Exit(2)
			}
			res, _ := runOne(*prop, sc, simrt.NewReplayTape(vals), 1000000+n, false, flags)
			res.Trace = nil
			res.Sample = nil
			if res.Violation != nil {
				res.Violation.Trace = nil
			}
			enc.Encode(res)
			out.Flush()
			n++
		}
		return
	}
	if *replay != "" {
		data, err := os.ReadFile(*replay)
		if err != nil {
			fmt.Fprintln(os.Stderr, err)
			os.Exit(2)
		}
		var rf ReplayFile
		if err := json.Unmarshal(data, &rf); err != nil {
			fmt.Fprintln(os.Stderr, err)
			os.Exit(2)
		}
		for k, v := range rf.Flags {
			if _, set := flags[k]; !set {
				flags[k] = v
			}
		}
		res, _ := runOne(*prop, sc, simrt.NewReplayTape(rf.Tape), rf.Run, true, flags)
		res.Seed = rf.Seed
		enc.Encode(res)
		return
	}

	start := time.Now()
	sum := Summary{Prop: *prop, From: *from, To: *to, Probes: map[string]int{}, Faults: map[string]int{}, Notes: map[string]int{}}
	hashes := map[uint64]bool{}
	nontriv := map[uint64]bool{}
	states := map[uint64]bool{}
	for run := *from; run < *to; run++ {
		if *budget > 0 && time.Since(start) > *budget {
			break
		}
		if *recycle > 0 && sum.Runs >= *recycle {
			break
		}
		rs := mix(*seed, *prop, run)
		tape := simrt.NewGenTape(rs)
		keep := *trace || sum.Runs < 2
		res, ctx := runOne(*prop, sc, tape, run, keep, flags)
		res.Seed = rs
		sum.Runs++
		sum.Steps += int64(res.Steps)
		hashes[res.Hash] = true
		if s := ctx.Sim; s != nil {
			if s.Overlap > 0 || len(s.FaultsHit) > 0 || ctx.Notes["nontrivial"] > 0 {
				nontriv[res.Hash] = true
			}
			sum.SimSeconds += s.SimTime.Seconds()
			sum.FsCalls += int64(s.FsCalls)
			sum.Requests += int64(len(s.Requests))
			for k, v := range s.Probes {
				sum.Probes[k] += v
			}
			for k, v := range s.FaultsHit {
				sum.Faults[k] += v
			}
			for _, p := range s.Procs {
				if p.Killed {
					sum.Kills++
				}
			}
		}
		for k, v := range ctx.Notes {
			sum.Notes[k] += v
		}
		for h := range ctx.StateHs {
			states[h] = true
		}
		if ctx.Inconcl {
			sum.Inconclusive++
		}
		if res.Violation != nil {
			res.Tape = tape.Vals
			sum.Violation = &res
			break
		}
		if len(sum.Samples) < 2 {
			r2 := res
			if len(r2.Trace) > 80 {
				r2.Trace = append(append([]string{}, r2.Trace[:80]...), "...")
			}
			sum.Samples = append(sum.Samples, r2)
		}
	}
	sum.Hashes = keys(hashes)
	sum.Nontrivial = keys(nontriv)
	sum.States = keys(states)
	sum.WallS = time.Since(start).Seconds()
	enc.Encode(sum)
}

func keys(m map[uint64]bool) []uint64 {
	r := make([]uint64, 0, len(m))
	for k := range m {
		r = append(r, k)
	}
	sort.Slice(r, func(i, j int) bool { return r[i] < r[j] })
	return r
}

func envInt(k string, def int) int {
	if v := os.Getenv(k); v != "" {
		var n int
		if _, err := fmt.Sscan(v, &n); err == nil && n > 0 {
			return n
		}
	}
	return def
}

// filterArgs drops -test.* flags so that a harness hosted in a test binary can
// share the flag set.
func filterArgs(args []string) []string {
	var r []string
	for _, a := range args {
		if strings.HasPrefix(a, "-test.") || strings.HasPrefix(a, "--test.") {
			continue
		}
		r = append(r, a)
	}
	return r
}

// Violationf builds a violation.
func Violationf(prop, inv, format string, args ...any) *Violation {
	return &Violation{Property: prop, Invariant: inv, Message: fmt.Sprintf(format, args...)}
}
