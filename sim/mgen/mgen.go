// Package mgen holds the generators shared by the machine-world (H2) and
// server-world (H3) harnesses: upload configurations, counter-name pools with
// near-misses, and counter files written by the independent encoder.
package mgen

import (
	"encoding/binary"
	"encoding/json"
	"errors"
	"fmt"
	"os"
	"os/exec"
	"path/filepath"
	"strings"
	"time"

	"golang.org/x/telemetry/internal/telemetry"
	"golang.org/x/telemetry/internal/verifsim/ref/refcal"
	"golang.org/x/telemetry/internal/verifsim/ref/refcfg"
	"golang.org/x/telemetry/internal/verifsim/ref/refformat"
	"golang.org/x/telemetry/internal/verifsim/simrt"
)

// CfgVersion is one version of the upload configuration, in the reference
// model's form and in the repository's.
type CfgVersion struct {
	Version string
	Ref     *refcfg.Config
	Real    *telemetry.UploadConfig
}

var ProgramPool = []struct {
	Path     string
	Versions []string
}{
	{"example.com/gopls", []string{"v0.14.0", "v0.15.0", "v0.16.0-pre.1"}},
	{"cmd/go", nil}, // toolchain program: version = Go version
	{"example.com/other", []string{"v1.0.0", "devel"}},
	{"example.com/local.tool", []string{"v1.0.0"}}, // its counter files are named local.tool@...: like local reports
	{"example.com/other/sub", []string{"v1.0.0"}},  // its path continues another program's: ("example.com/other", "sub/plain") is not ("example.com/other/sub", "plain")
}

// NoMultiPage switches the count files of several pages off (a harness that has to
// keep a week's report below a size sets it).
var NoMultiPage bool

var GoVersionPool = []string{"go1.21.0", "go1.22.1", "devel"}

var PlatformPool = [][2]string{{"linux", "amd64"}, {"linux", "amd64"}, {"darwin", "arm64"}, {"plan9", "mips"}, {"linux", "arm64"}, {"linux", "mips"}, {"darwin", "386"}}

// Names a program may have counted locally: approved names, bucket expansions,
// and near-misses of them.
var LocalCounterPool = []string{
	"editor:vscode", "editor:vim", "editor:emacs", "editor", "editor:", "editor:vscode2", "xeditor:vscode",
	"editor:{vscode,vim}", "plain", "plain2", "plai", "go/invocations", "go/invocation", "flag:-json", "flag:{-json}",
	"crash/crash", "crash/other", // plain counters named like approved stack counters
	"signal:os:kill", "signal:os", "signal:kill", "signal:", "signal:none", // buckets that contain a colon, and near-misses of them
	"sub/plain", "sub/go/invocations", "sub/editor:vim", // approved for the program example.com/other/sub under their last part only
}

var LocalStackPool = []string{
	"crash/crash\nruntime.gopanic:+12,+0x40\nmain.main:+3,+0x10",
	"crash/crash\nexample.com/pkg.F:+1,+0x10\n\".G:+2,+0x20",
	"crash/crash2\nmain.main:+3,+0x10",
	"plain\nmain.main:+1,+0x1", // a stack counter whose first line is an approved plain counter
	"crash\nmain.main:+1,+0x1",
	"crash/other\nmain.main:+9,+0x90",
	"sub/crash/crash\nmain.main:+2,+0x20",
}

var CfgCounterPool = []string{"editor:{vscode,vim}", "plain", "go/invocations", "flag:{-json,-v}", "editor:{emacs}", "signal:{os:kill,os:term,none}"}
var CfgStackPool = []string{"crash/crash", "crash/other", "plain"} // "plain" may be listed as a counter too, with another rate

// dyadic rationals k/2^20: exactly representable on both sides of X <= Rate.
func Dyadic(k int) float64 { return float64(k) / float64(1<<20) }

func GenConfig(t *simrt.Tape, version string) *CfgVersion {
	rc := &refcfg.Config{}
	rc.GOOS = []string{"linux", "darwin"}
	rc.GOARCH = []string{"amd64", "arm64"}
	if t.Bool(1, 6) {
		rc.GOOS = []string{"linux"}
	}
	if t.Bool(1, 6) {
		rc.GOARCH = []string{"amd64"} // an architecture may be unlisted although its system is listed
	}
	for _, gv := range GoVersionPool {
		if t.Bool(3, 4) {
			rc.GoVersion = append(rc.GoVersion, gv)
		}
	}
	rates := []float64{0, 1, Dyadic(1 << 19), Dyadic(1<<19 + 1), Dyadic(1<<19 - 1), Dyadic(3 << 18)}
	switch t.Biased(4, 1, 2) {
	case 0:
		rc.SampleRate = 1
	case 1:
		rc.SampleRate = 0
	case 2:
		rc.SampleRate = Dyadic(1 << 19)
	case 3:
		rc.SampleRate = rates[t.Draw(len(rates))]
	}
	for _, pp := range ProgramPool {
		if !t.Bool(4, 5) {
			continue
		}
		p := refcfg.Program{Name: pp.Path}
		vs := pp.Versions
		if vs == nil {
			vs = GoVersionPool
		}
		for _, v := range vs {
			if t.Bool(3, 4) {
				p.Versions = append(p.Versions, v)
			}
		}
		if t.Bool(1, 8) {
			p.Versions = append(p.Versions, "") // binaries built without version information record the empty version: it can be approved like any other
		}
		for _, cn := range CfgCounterPool {
			if t.Bool(2, 3) {
				p.Counters = append(p.Counters, refcfg.Counter{Name: cn, Rate: rates[t.Biased(len(rates), 1, 3)+0]})
			}
		}
		for _, sn := range CfgStackPool {
			if t.Bool(2, 3) {
				p.Stacks = append(p.Stacks, refcfg.Counter{Name: sn, Rate: rates[t.Biased(len(rates), 1, 3)]})
			}
		}
		rc.Programs = append(rc.Programs, p)
	}
	// Rate 0 is listed first in rates so Biased's benign choice is "never
	// uploaded"; flip so that the benign choice is rate 1 (always uploaded).
	for i := range rc.Programs {
		for j := range rc.Programs[i].Counters {
			rc.Programs[i].Counters[j].Rate = flipRate(rc.Programs[i].Counters[j].Rate)
		}
		for j := range rc.Programs[i].Stacks {
			rc.Programs[i].Stacks[j].Rate = flipRate(rc.Programs[i].Stacks[j].Rate)
		}
	}
	real := &telemetry.UploadConfig{GOOS: rc.GOOS, GOARCH: rc.GOARCH, GoVersion: rc.GoVersion, SampleRate: rc.SampleRate}
	for _, p := range rc.Programs {
		rp := &telemetry.ProgramConfig{Name: p.Name, Versions: p.Versions}
		for _, c := range p.Counters {
			rp.Counters = append(rp.Counters, telemetry.CounterConfig{Name: c.Name, Rate: c.Rate})
		}
		for _, c := range p.Stacks {
			rp.Stacks = append(rp.Stacks, telemetry.CounterConfig{Name: c.Name, Rate: c.Rate, Depth: 16})
		}
		real.Programs = append(real.Programs, rp)
	}
	return &CfgVersion{Version: version, Ref: rc, Real: real}
}

func flipRate(r float64) float64 {
	switch r {
	case 0:
		return 1
	case 1:
		return 0
	}
	return r
}

// siblingProgram returns another import path whose last element is p's.
func siblingProgram(p string) string {
	switch {
	case p == "":
		return p
	case strings.HasPrefix(p, "example.com/"):
		return "example.net/x/" + strings.TrimPrefix(p, "example.com/")
	case strings.HasPrefix(p, "example.net/x/"):
		return "example.com/" + strings.TrimPrefix(p, "example.net/x/")
	}
	return "example.com/" + p // cmd/go and example.com/cmd/go
}

type build struct {
	prog, ver, gv string
	plat          [2]string
}

var prevBuild = map[*simrt.Sim]build{} // per simulation: the build of the file written last

// WriteCounterFile adds a counter file produced by the independent encoder to dir.
// kind: 0 ordinary, 1 empty (no counters), 2 unreadable, 3 second file of a build, 4 recorded end not at midnight,
// 5 no TimeEnd, 6 dates without a time of day, 7 empty TimeEnd (5-7: well-formed files whose week cannot be told).
func WriteCounterFile(t *simrt.Tape, s *simrt.Sim, dir string, begin time.Time, days int, kind int) {
	pp := ProgramPool[t.Draw(len(ProgramPool))]
	gv := GoVersionPool[t.Draw(len(GoVersionPool))]
	ver := gv
	if pp.Versions != nil {
		ver = pp.Versions[t.Draw(len(pp.Versions))]
	}
	plat := PlatformPool[t.Draw(len(PlatformPool))]
	prog := pp.Path
	switch t.Biased(12, 3, 4) {
	case 1, 2: // the build of the previous file again, on another day: the usual case on a real machine
		if b, ok := prevBuild[s]; ok {
			prog, ver, gv, plat = b.prog, b.ver, b.gv, b.plat
		}
	case 3: // identities that only nearly match what a configuration can list
		prog = []string{"example.com/gopls/v2", "gopls", "example.com/gopl", "other.org/x/gopls", "Example.com/gopls", "cmd/go2"}[t.Draw(6)]
	case 4:
		ver = []string{"v0.16.0", "v0.15", "v0.15.0+meta", "v1.0.0+incompatible", "v0.14.0 ", "devel2", "0.14.0"}[t.Draw(7)]
	case 5:
		gv = []string{"go1.22.10", "go1.22", "go1.21rc1", "go1.21.00", "Go1.21.0", "devel +abc123"}[t.Draw(6)]
		if pp.Versions == nil {
			ver = gv
		}
	case 8, 9: // the previous file's build under another import path with the same last element:
		// the two share every part of their counter files' names and are still two programs
		if b, ok := prevBuild[s]; ok {
			prog, ver, gv, plat = siblingProgram(b.prog), b.ver, b.gv, b.plat
			s.Probe("programs-sharing-last-path-element")
		}
	case 6, 7: // a metadata value that is empty
		switch t.Draw(5) {
		case 0:
			prog = ""
		case 1:
			ver = ""
		case 2:
			gv = ""
		case 3:
			plat[0] = ""
		case 4:
			plat[1] = ""
		}
	}
	prevBuild[s] = build{prog, ver, gv, plat}
	bday := refcal.DayOfUnix(begin.Unix())
	endText := refcal.RFC3339Midnight(bday + days)
	if kind == 4 {
		// a file (of a foreign or older writer) whose recorded end is not midnight:
		// it still belongs to the week named by its end date
		endText = refcal.Date(bday+days) + []string{"T12:00:00Z", "T00:00:01Z", "T23:59:59Z"}[t.Draw(3)]
		kind = 0
	}
	kv := [][2]string{
		{"TimeBegin", refcal.RFC3339Midnight(bday)}, {"TimeEnd", endText},
		{"Program", prog}, {"Version", ver}, {"GoVersion", gv}, {"GOOS", plat[0]}, {"GOARCH", plat[1]},
	}
	switch kind {
	case 5: // a well-formed file that does not say when it ends: nobody can tell its week
		kv = append(kv[:1], kv[2:]...)
		kind = 0
	case 6: // dates written without a time of day
		kv[0][1], kv[1][1] = refcal.Date(bday), refcal.Date(bday+days)
		kind = 0
	case 7: // an empty end
		kv[1][1] = ""
		kind = 0
	}
	meta := refformat.MetaText(kv)
	var pairs []refformat.Pair
	if kind != 1 { // kind 1: empty file (no counters)
		n := 1 + t.Draw(5)
		seen := map[string]bool{}
		for i := 0; i < n; i++ {
			var name string
			if t.Bool(1, 4) {
				name = LocalStackPool[t.Draw(len(LocalStackPool))]
			} else {
				name = LocalCounterPool[t.Draw(len(LocalCounterPool))]
			}
			if seen[name] {
				continue
			}
			seen[name] = true
			// any value a report can carry: mostly small, sometimes zero (a slot
			// allocated and never counted into), rarely huge. A week's sum stays
			// below 2^63: the report's fields are signed 64-bit, so no
			// implementation can make "equals the sum" true beyond that (the
			// pinned tree reports a counter holding 2^63 as -2^63; see DESIGN 12).
			val := uint64(1 + t.Draw(1000))
			switch t.Biased(40, 33, 40) {
			case 1, 2, 3, 4, 5:
				val = 0
			case 6:
				val = 1 << 50 // (the oracles read report numbers as float64: keep sums exact)
			case 7:
				val = 1<<50 - 1
			}
			pairs = append(pairs, refformat.Pair{Name: name, Value: val})
		}
	}
	if kind == 0 && t.Bool(1, 12) && !NoMultiPage {
		// a program with many distinct stacks: the file runs over several pages
		for i, n := 0, 20+t.Draw(30); i < n; i++ {
			var sb strings.Builder
			sb.WriteString([]string{"crash/crash", "crash/other", "crash/crash2"}[t.Draw(3)])
			for f := 0; sb.Len() < 700+t.Draw(600); f++ {
				fmt.Fprintf(&sb, "\nexample.com/deep/pkg%d.(*T).m%d:+%d,+0x%x", i, f, f+1, 16*f+i)
			}
			pairs = append(pairs, refformat.Pair{Name: sb.String(), Value: uint64(1 + t.Draw(9))})
		}
		s.Probe("count-file-of-several-pages")
	}
	data, err := refformat.Encode(meta, pairs, t.Draw(2))
	if err != nil {
		panic(err)
	}
	if kind == 2 { // unparseable
		switch t.Draw(3) {
		case 0:
			data = data[:100]
		case 1:
			copy(data, "# not a counter file")
		case 2:
			binary.LittleEndian.PutUint32(data[28:], 0xffff)
		}
	}
	progBase := prog[strings.LastIndex(prog, "/")+1:]
	if progBase == "" {
		progBase = "unknown"
	}
	name := fmt.Sprintf("%s@%s-%s-%s-%s-%s.v1.count", progBase, ver, gv, plat[0], plat[1], refcal.Date(bday))
	if kind == 3 { // a second file of the same build and day cannot exist; vary the name as another program would
		name = "x" + name
	}
	os.MkdirAll(dir, 0777)
	path := filepath.Join(dir, name)
	if _, err := os.Stat(path); err == nil {
		return
	}
	if err := os.WriteFile(path, data, 0666); err != nil {
		panic(err)
	}
	s.SetMtime(path, s.NowT())
}

// ServeConfig makes the simulated `go` command answer `go mod download -json
// golang.org/x/telemetry/config@<version>`, the command the real
// configstore.Download runs: fn decides what the config store returns for a
// request (the task that asks is simrt.Cur()); the configuration is written as
// config.json into a fresh module directory under dir and the command prints
// that directory and the canonical version, as the go command does. An error
// from fn makes the command fail with the go command's {"Error": ...} output.
// before, when not nil, runs first (a harness may let the command be a process
// of the simulated process table that does things of its own).
func ServeConfig(s *simrt.Sim, dir string, before func(cmd *exec.Cmd) error, fn func(version string, env []string) (*telemetry.UploadConfig, string, error)) {
	n := 0
	s.RunFn = func(cmd *exec.Cmd) (bool, error) {
		a := cmd.Args
		if len(a) != 5 || a[0] != "go" || a[1] != "mod" || a[2] != "download" || a[3] != "-json" || !strings.HasPrefix(a[4], "golang.org/x/telemetry/config@") {
			return false, nil
		}
		simrt.Yield("proc:run " + strings.Join(a, " "))
		if before != nil {
			if err := before(cmd); err != nil {
				return true, err
			}
		}
		cfg, ver, err := fn(strings.TrimPrefix(a[4], "golang.org/x/telemetry/config@"), cmd.Env)
		if err != nil {
			if cmd.Stdout != nil {
				js, _ := json.Marshal(map[string]string{"Error": err.Error()})
				cmd.Stdout.Write(js)
			}
			return true, errors.New("exit status 1")
		}
		n++
		mod := filepath.Join(dir, "modcache", fmt.Sprintf("config@%s-%d", ver, n))
		os.MkdirAll(mod, 0777)
		js, _ := json.MarshalIndent(cfg, "", "\t")
		os.WriteFile(filepath.Join(mod, "config.json"), js, 0666)
		if cmd.Stdout != nil {
			out, _ := json.Marshal(map[string]string{"Path": "golang.org/x/telemetry/config", "Version": ver, "Dir": mod})
			cmd.Stdout.Write(out)
		}
		return true, nil
	}
}

// WriteBigWeekFile adds a counter file of a build the configuration approves,
// holding enough distinct stack counters under an approved stack name (rate 1)
// for the week's report to be about target bytes long. It reports whether the
// configuration has such a build.
func WriteBigWeekFile(t *simrt.Tape, dir string, begin time.Time, days int, cfg *CfgVersion, target int) bool {
	rc := cfg.Ref
	if len(rc.GoVersion) == 0 || len(rc.GOOS) == 0 || len(rc.GOARCH) == 0 {
		return false
	}
	for _, p := range rc.Programs {
		if len(p.Versions) == 0 {
			continue
		}
		for _, st := range p.Stacks {
			if st.Rate < 1 {
				continue
			}
			bday := refcal.DayOfUnix(begin.Unix())
			gv, ver := rc.GoVersion[0], p.Versions[0]
			meta := refformat.MetaText([][2]string{
				{"TimeBegin", refcal.RFC3339Midnight(bday)}, {"TimeEnd", refcal.RFC3339Midnight(bday + days)},
				{"Program", p.Name}, {"Version", ver}, {"GoVersion", gv}, {"GOOS", rc.GOOS[0]}, {"GOARCH", rc.GOARCH[0]},
			})
			var pairs []refformat.Pair
			for size, i := 0, 0; size < target; i++ {
				var sb strings.Builder
				sb.WriteString(st.Name)
				for f := 0; sb.Len() < 2600+t.Draw(1200); f++ {
					fmt.Fprintf(&sb, "\nexample.com/some/long/import/path/pkg%d.(*Type%d).Method%d:+%d,+0x%x", i, f, f, f+1, 16*f+i)
				}
				name := sb.String()
				pairs = append(pairs, refformat.Pair{Name: name, Value: uint64(1 + t.Draw(9))})
				size += len(name) + 20
			}
			data, err := refformat.Encode(meta, pairs, 0)
			if err != nil {
				return false
			}
			os.MkdirAll(dir, 0777)
			base := p.Name[strings.LastIndex(p.Name, "/")+1:]
			name := fmt.Sprintf("%s@%s-%s-%s-%s-%s.v1.count", base, ver, gv, rc.GOOS[0], rc.GOARCH[0], refcal.Date(bday))
			if _, err := os.Stat(filepath.Join(dir, name)); err == nil {
				return false
			}
			return os.WriteFile(filepath.Join(dir, name), data, 0666) == nil
		}
	}
	return false
}
