// Package refcal is civil-date arithmetic on day numbers, written without
// time.Date normalisation, for the week-boundary oracles.
package refcal

import "fmt"

// DaysFromCivil returns the number of days since 1970-01-01 (proleptic Gregorian).
func DaysFromCivil(y, m, d int) int {
	if m <= 2 {
		y--
	}
	var era int
	if y >= 0 {
		era = y / 400
	} else {
		era = (y - 399) / 400
	}
	yoe := y - era*400
	mp := (m + 9) % 12
	doy := (153*mp+2)/5 + d - 1
	doe := yoe*365 + yoe/4 - yoe/100 + doy
	return era*146097 + doe - 719468
}

// CivilFromDays is the inverse of DaysFromCivil.
func CivilFromDays(z int) (y, m, d int) {
	z += 719468
	var era int
	if z >= 0 {
		era = z / 146097
	} else {
		era = (z - 146096) / 146097
	}
	doe := z - era*146097
	yoe := (doe - doe/1460 + doe/36524 - doe/146096) / 365
	y = yoe + era*400
	doy := doe - (365*yoe + yoe/4 - yoe/100)
	mp := (5*doy + 2) / 153
	d = doy - (153*mp+2)/5 + 1
	if mp < 10 {
		m = mp + 3
	} else {
		m = mp - 9
	}
	if m <= 2 {
		y++
	}
	return
}

// Weekday of a day number: 0 = Sunday.
func Weekday(days int) int {
	w := (days + 4) % 7
	if w < 0 {
		w += 7
	}
	return w
}

// DayOfUnix returns the UTC day number containing the given Unix second.
func DayOfUnix(sec int64) int {
	if sec >= 0 {
		return int(sec / 86400)
	}
	return int((sec - 86399) / 86400)
}

// NextWeekday returns the first day strictly after `day` that falls on weekday
// wd (0 = Sunday): one to seven days later.
func NextWeekday(day, wd int) int {
	incr := (wd - Weekday(day) + 7) % 7
	if incr == 0 {
		incr = 7
	}
	return day + incr
}

// Date formats a day number as YYYY-MM-DD.
func Date(day int) string {
	y, m, d := CivilFromDays(day)
	return fmt.Sprintf("%04d-%02d-%02d", y, m, d)
}

// RFC3339Midnight formats 00:00 UTC of the day.
func RFC3339Midnight(day int) string { return Date(day) + "T00:00:00Z" }
