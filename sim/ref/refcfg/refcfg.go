// Package refcfg models the documented semantics of the upload configuration:
// which programs, versions, Go versions, platforms, counters and stacks it
// approves, and at which rate. It imports nothing from the repository.
package refcfg

import "strings"

type Counter struct {
	Name string
	Rate float64
}

type Program struct {
	Name     string
	Versions []string
	Counters []Counter
	Stacks   []Counter
}

type Config struct {
	GOOS, GOARCH, GoVersion []string
	SampleRate              float64
	Programs                []Program
}

func in(list []string, s string) bool {
	for _, x := range list {
		if x == s {
			return true
		}
	}
	return false
}

// Expand turns chart:{a,b} into chart:a, chart:b; a name without buckets stands for itself.
func Expand(name string) []string {
	i := strings.Index(name, "{")
	if i < 0 {
		return []string{name}
	}
	prefix, rest := name[:i], name[i+1:]
	rest = strings.TrimSuffix(rest, "}")
	var out []string
	for _, b := range strings.Split(rest, ",") {
		out = append(out, prefix+b)
	}
	return out
}

func (c *Config) program(name string) *Program {
	for i := range c.Programs {
		if c.Programs[i].Name == name {
			return &c.Programs[i]
		}
	}
	return nil
}

func (c *Config) HasGOOS(s string) bool      { return in(c.GOOS, s) }
func (c *Config) HasGOARCH(s string) bool    { return in(c.GOARCH, s) }
func (c *Config) HasGoVersion(s string) bool { return in(c.GoVersion, s) }
func (c *Config) HasProgram(s string) bool   { return c.program(s) != nil }

func (c *Config) HasVersion(prog, v string) bool {
	p := c.program(prog)
	return p != nil && in(p.Versions, v)
}

// ProgramApproved: package path, version and Go version are listed.
func (c *Config) ProgramApproved(prog, version, goVersion string) bool {
	return c.HasGoVersion(goVersion) && c.HasVersion(prog, version)
}

// CounterRate reports whether the (expanded) counter name is listed for the program, and its rate.
func (c *Config) CounterRate(prog, name string) (float64, bool) {
	p := c.program(prog)
	if p == nil {
		return 0, false
	}
	for _, cc := range p.Counters {
		for _, e := range Expand(cc.Name) {
			if e == name {
				return cc.Rate, true
			}
		}
	}
	return 0, false
}

// StackRate looks a stack counter up by the part of its name before the first newline.
func (c *Config) StackRate(prog, fullName string) (float64, bool) {
	p := c.program(prog)
	if p == nil {
		return 0, false
	}
	first := fullName
	if i := strings.IndexByte(fullName, '\n'); i >= 0 {
		first = fullName[:i]
	}
	for _, s := range p.Stacks {
		if s.Name == first {
			return s.Rate, true
		}
	}
	return 0, false
}
