// Package refformat is an independent implementation of the v1 counter-file
// layout, written from the layout comment in internal/counter/file.go and the
// property statements. It imports nothing from the repository.
//
//	offset 0            "# telemetry/counter file v1\n" padded to a multiple of 4
//	then 4 bytes        little-endian header length H (multiple of 32)
//	then                metadata "Key: value\n" lines ending with an empty line, zero padded to H
//	H                   uint32 allocation limit (0 = no record yet)
//	H+4 .. H+4+4*512    512 uint32 bucket heads
//	records             value:8 | namelen:4 (low 24 bits significant) | next:4 | name, 32-byte aligned,
//	                    never reaching the end of a 16 KiB page
package refformat

import (
	"bytes"
	"encoding/binary"
	"fmt"
	"sort"
	"strings"
)

const (
	Prefix   = "# telemetry/counter file v1\n"
	PageSize = 16 * 1024
	NumHash  = 512
	Unit     = 32
	MaxName  = 4096
	MaxMeta  = 512
	Dead     = 0xffffffff
)

// Hash is FNV-1a (32 bit) folded and reduced to a bucket index.
func Hash(name string) uint32 {
	h := uint32(2166136261)
	for i := 0; i < len(name); i++ {
		h ^= uint32(name[i])
		h *= 16777619
	}
	return (h ^ (h >> 16)) % NumHash
}

type Record struct {
	Off    uint32
	End    uint32
	Name   string
	Value  uint64
	Next   uint32
	Bucket uint32
}

type File struct {
	Size    int
	HdrLen  uint32
	MetaRaw string
	Meta    map[string]string
	Limit   uint32
	Records []Record          // linked records, in bucket then chain order
	Counts  map[string]uint64 // raw (undecoded) name -> value
}

func up(x, unit uint32) uint32 { return (x + unit - 1) / unit * unit }

// FirstRecord is the offset of the first record for header length h.
func FirstRecord(h uint32) uint32 { return up(h+4+4*NumHash, Unit) }

// Decode strictly decodes data. Any departure from the documented layout, or
// from the two conventions the library's writers rely on (files are whole
// pages; no record reaches the last byte of its page), is an error.
func Decode(data []byte) (*File, error) { return decode(data, true) }

// DecodeDoc decodes by the documented layout alone: records may lie anywhere
// between the hash table and the limit, and the limit anywhere up to the end
// of the file. It is the reader a third party would write from the comment.
func DecodeDoc(data []byte) (*File, error) { return decode(data, false) }

func decode(data []byte, writerConventions bool) (*File, error) {
	f := &File{Size: len(data), Meta: map[string]string{}, Counts: map[string]uint64{}}
	if len(data) < PageSize {
		return nil, fmt.Errorf("file shorter than one page (%d)", len(data))
	}
	if writerConventions && len(data)%PageSize != 0 {
		return nil, fmt.Errorf("file size %d is not a whole number of pages", len(data))
	}
	if !bytes.HasPrefix(data, []byte(Prefix)) {
		return nil, fmt.Errorf("bad prefix")
	}
	np := up(uint32(len(Prefix)), 4)
	for _, b := range data[len(Prefix):np] {
		if b != 0 {
			return nil, fmt.Errorf("non-zero prefix padding")
		}
	}
	h := binary.LittleEndian.Uint32(data[np:])
	f.HdrLen = h
	if h%Unit != 0 || h < np+4 || h > np+4+MaxMeta+Unit {
		return nil, fmt.Errorf("bad header length %d", h)
	}
	meta := data[np+4 : h]
	if i := bytes.IndexByte(meta, 0); i >= 0 {
		for _, b := range meta[i:] {
			if b != 0 {
				return nil, fmt.Errorf("non-zero byte after metadata")
			}
		}
		meta = meta[:i]
	}
	f.MetaRaw = string(meta)
	if up(np+4+uint32(len(meta)), Unit) != h {
		return nil, fmt.Errorf("header length %d does not match metadata length %d", h, len(meta))
	}
	for _, line := range strings.Split(f.MetaRaw, "\n") {
		if line == "" {
			continue
		}
		k, v, ok := strings.Cut(line, ": ")
		if !ok {
			return nil, fmt.Errorf("bad metadata line %q", line)
		}
		f.Meta[k] = v
	}
	first := FirstRecord(h)
	limit := binary.LittleEndian.Uint32(data[h:])
	f.Limit = limit
	if limit != 0 {
		if limit < first || limit%Unit != 0 {
			return nil, fmt.Errorf("bad limit %#x (first record at %#x)", limit, first)
		}
		if int64(limit) > int64(len(data)) {
			return nil, fmt.Errorf("limit %#x beyond file size %#x", limit, len(data))
		}
	}
	seen := map[uint32]bool{}
	for b := uint32(0); b < NumHash; b++ {
		off := binary.LittleEndian.Uint32(data[h+4+4*b:])
		for off != 0 {
			if seen[off] {
				return nil, fmt.Errorf("bucket %d: record %#x linked twice (cycle or shared tail)", b, off)
			}
			seen[off] = true
			if off < first || off%Unit != 0 {
				return nil, fmt.Errorf("bucket %d: bad record offset %#x", b, off)
			}
			if limit == 0 || int64(off)+16 > int64(limit) {
				return nil, fmt.Errorf("bucket %d: record %#x beyond limit %#x", b, off, limit)
			}
			nl := binary.LittleEndian.Uint32(data[off+8:]) & 0x00ffffff
			if nl == 0 || nl > MaxName {
				return nil, fmt.Errorf("record %#x: bad name length %d", off, nl)
			}
			end := off + up(16+nl, Unit)
			if end > limit {
				return nil, fmt.Errorf("record %#x: end %#x beyond limit %#x", off, end, limit)
			}
			if writerConventions && off/PageSize != end/PageSize {
				return nil, fmt.Errorf("record %#x-%#x reaches the reserved end of its page", off, end)
			}
			name := string(data[off+16 : off+16+nl])
			if Hash(name) != b {
				return nil, fmt.Errorf("record %#x: name %q hashes to %d, linked in bucket %d", off, name, Hash(name), b)
			}
			if _, dup := f.Counts[name]; dup {
				return nil, fmt.Errorf("name %q has two records", name)
			}
			next := binary.LittleEndian.Uint32(data[off+12:])
			if next == Dead {
				return nil, fmt.Errorf("record %#x (%q) is marked dead but is linked", off, name)
			}
			v := binary.LittleEndian.Uint64(data[off:])
			f.Counts[name] = v
			f.Records = append(f.Records, Record{Off: off, End: end, Name: name, Value: v, Next: next, Bucket: b})
			off = next
		}
	}
	// Records must not overlap one another.
	rs := append([]Record(nil), f.Records...)
	sort.Slice(rs, func(i, j int) bool { return rs[i].Off < rs[j].Off })
	for i := 1; i < len(rs); i++ {
		if rs[i].Off < rs[i-1].End {
			return nil, fmt.Errorf("records %#x and %#x overlap", rs[i-1].Off, rs[i].Off)
		}
	}
	return f, nil
}

// Header builds the header for the given metadata text.
func Header(meta string) []byte {
	np := up(uint32(len(Prefix)), 4)
	h := up(np+4+uint32(len(meta)), Unit)
	hdr := make([]byte, h)
	copy(hdr, Prefix)
	binary.LittleEndian.PutUint32(hdr[np:], h)
	copy(hdr[np+4:], meta)
	return hdr
}

// MetaText renders metadata in the order the documentation lists the keys.
func MetaText(kv [][2]string) string {
	var sb strings.Builder
	for _, p := range kv {
		sb.WriteString(p[0] + ": " + p[1] + "\n")
	}
	sb.WriteString("\n")
	return sb.String()
}

type Pair struct {
	Name  string
	Value uint64
}

// Encode writes a well-formed file with a placement policy deliberately
// different from the library's: records are laid out in the given order but
// each one is preceded by gap*32 unused bytes, and a record is appended at the
// tail of its bucket chain instead of the head.
func Encode(meta string, pairs []Pair, gap int) ([]byte, error) {
	return encode(meta, pairs, gap, false, false)
}

// EncodeTight writes a file that is well-formed by the documented layout but
// does not follow the library writers' conventions: records are packed across
// page boundaries, the last record ends on the last byte of the file, and with
// trim the file ends at the limit instead of at a page boundary.
func EncodeTight(meta string, pairs []Pair, gap int, trim bool) ([]byte, error) {
	return encode(meta, pairs, gap, true, trim)
}

func encode(meta string, pairs []Pair, gap int, tight, trim bool) ([]byte, error) {
	if len(meta) > MaxMeta {
		return nil, fmt.Errorf("metadata too long")
	}
	hdr := Header(meta)
	h := uint32(len(hdr))
	data := make([]byte, PageSize)
	copy(data, hdr)
	limit := uint32(0)
	tails := map[uint32]uint32{} // bucket -> offset of last record
	seen := map[string]bool{}
	for pi, p := range pairs {
		if len(p.Name) == 0 || len(p.Name) > MaxName {
			return nil, fmt.Errorf("bad name length")
		}
		if seen[p.Name] {
			return nil, fmt.Errorf("duplicate name")
		}
		seen[p.Name] = true
		start := limit
		if start == 0 {
			start = FirstRecord(h)
		}
		start += uint32(gap) * Unit
		n := up(16+uint32(len(p.Name)), Unit)
		if !tight && start/PageSize != (start+n)/PageSize {
			start = up(start, PageSize)
		}
		if tight && !trim && pi == len(pairs)-1 {
			// the last record ends on the last byte of the file
			size := up(start+n, PageSize)
			start = size - n
		}
		end := start + n
		for int(end) > len(data) {
			data = append(data, make([]byte, PageSize)...)
		}
		binary.LittleEndian.PutUint64(data[start:], p.Value)
		binary.LittleEndian.PutUint32(data[start+8:], uint32(len(p.Name)))
		copy(data[start+16:], p.Name)
		b := Hash(p.Name)
		if t, ok := tails[b]; ok {
			binary.LittleEndian.PutUint32(data[t+12:], start)
		} else {
			binary.LittleEndian.PutUint32(data[h+4+4*b:], start)
		}
		tails[b] = start
		limit = end
	}
	binary.LittleEndian.PutUint32(data[h:], limit)
	if tight && trim && int(limit) >= PageSize {
		data = data[:limit]
	}
	return data, nil
}

// ColldingNames returns n distinct names with the given prefix that all hash
// to the same bucket as the first one found.
func CollidingNames(prefix string, n int) []string {
	var out []string
	want := uint32(NumHash)
	for i := 0; len(out) < n && i < 1<<20; i++ {
		name := fmt.Sprintf("%s%d", prefix, i)
		h := Hash(name)
		if want == NumHash {
			want = h
		}
		if h == want {
			out = append(out, name)
		}
	}
	return out
}
