// Package refreport is the reference model of the weekly report: aggregation of
// counter files by week and program build, and the documented upload filter.
package refreport

import (
	"sort"
	"strings"

	"golang.org/x/telemetry/internal/verifsim/ref/refcfg"
	"golang.org/x/telemetry/internal/verifsim/ref/refstack"
)

// CountFile is a decoded counter file as the model sees it.
type CountFile struct {
	Path   string
	Meta   map[string]string
	Counts map[string]uint64 // raw stored names
}

type Build struct {
	Program, Version, GoVersion, GOOS, GOARCH string
}

type ProgramData struct {
	// PlatformOK is set by Filter: GOOS and GOARCH are in the configuration.
	// The report statement (C01) approves programs by path, version and Go
	// version; the server (C11) also requires the platform, so a build on an
	// unlisted platform may be left out of a request.
	PlatformOK bool
	Build      Build
	Counters   map[string]int64
	Stacks     map[string]int64
}

type Week struct {
	Programs []*ProgramData
}

func (w *Week) find(b Build) *ProgramData {
	for _, p := range w.Programs {
		if p.Build == b {
			return p
		}
	}
	p := &ProgramData{Build: b, Counters: map[string]int64{}, Stacks: map[string]int64{}}
	w.Programs = append(w.Programs, p)
	return p
}

// Aggregate sums the files of one week per program build. A name is a stack
// counter exactly when it contains a newline; stack names are expanded.
func Aggregate(files []*CountFile) *Week {
	w := &Week{}
	for _, f := range files {
		// A file without counters still names its build: whether a build without
		// any data is listed in a report is left open by the documentation.
		b := Build{f.Meta["Program"], f.Meta["Version"], f.Meta["GoVersion"], f.Meta["GOOS"], f.Meta["GOARCH"]}
		p := w.find(b)
		for n, v := range f.Counts {
			if strings.Contains(n, "\n") {
				p.Stacks[refstack.Expand(n)] += int64(v)
			} else {
				p.Counters[n] += int64(v)
			}
		}
	}
	sort.Slice(w.Programs, func(i, j int) bool { return less(w.Programs[i].Build, w.Programs[j].Build) })
	return w
}

func less(a, b Build) bool {
	if a.Program != b.Program {
		return a.Program < b.Program
	}
	if a.Version != b.Version {
		return a.Version < b.Version
	}
	if a.GoVersion != b.GoVersion {
		return a.GoVersion < b.GoVersion
	}
	if a.GOOS != b.GOOS {
		return a.GOOS < b.GOOS
	}
	return a.GOARCH < b.GOARCH
}

// Filter applies the documented upload filter: programs approved by path,
// version and Go version; counters that are an expansion of a listed counter
// with rate >= x; stacks whose first line is a listed stack with rate >= x.
func Filter(w *Week, cfg *refcfg.Config, x float64) *Week {
	out := &Week{}
	for _, p := range w.Programs {
		if !cfg.ProgramApproved(p.Build.Program, p.Build.Version, p.Build.GoVersion) {
			continue
		}
		q := &ProgramData{Build: p.Build, Counters: map[string]int64{}, Stacks: map[string]int64{}}
		q.PlatformOK = cfg.HasGOOS(p.Build.GOOS) && cfg.HasGOARCH(p.Build.GOARCH)
		for n, v := range p.Counters {
			if r, ok := cfg.CounterRate(p.Build.Program, n); ok && r >= x {
				q.Counters[n] = v
			}
		}
		for n, v := range p.Stacks {
			if r, ok := cfg.StackRate(p.Build.Program, n); ok && r >= x {
				q.Stacks[n] = v
			}
		}
		out.Programs = append(out.Programs, q)
	}
	return out
}
