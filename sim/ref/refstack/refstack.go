// Package refstack expands the import-path abbreviation used in stack-counter
// names: a name is a stack counter exactly when it contains a newline; every
// line has the form <import path>.<rest>, and a path written as a ditto mark (")
// stands for the most recent explicit path on an earlier line.
package refstack

import "strings"

func Expand(name string) string {
	if strings.IndexByte(name, '\n') < 0 {
		return name
	}
	parts := strings.Split(name, "\n")
	prev := ""
	for i, ln := range parts {
		dot := strings.LastIndexByte(ln, '.')
		if dot <= 0 {
			continue // no path component
		}
		path, rest := ln[:dot], ln[dot+1:]
		if path == `"` {
			parts[i] = prev + rest
			continue
		}
		prev = path + "."
	}
	return strings.Join(parts, "\n")
}
