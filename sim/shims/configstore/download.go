// Package configstore: verif's stub of the upload-config download. The real
// Download executes `go mod download`; in the simulation build it is replaced by
// this file (declared as a stub in every evidence file). The harness decides
// what the "config server" returns.
package configstore

import (
	"errors"
	"sync/atomic"

	"golang.org/x/telemetry/internal/telemetry"
)

const (
	ModulePath     = "golang.org/x/telemetry/config"
	configFileName = "config.json"
)

var downloads int64

func Downloads() int64 { return atomic.LoadInt64(&downloads) }

// VerifDownload is installed by the harness.
var VerifDownload func(version string, envOverlay []string) (*telemetry.UploadConfig, string, error)

func Download(version string, envOverlay []string) (*telemetry.UploadConfig, string, error) {
	atomic.AddInt64(&downloads, 1)
	if VerifDownload == nil {
		return nil, "", errors.New("configstore stub: no download function installed")
	}
	return VerifDownload(version, envOverlay)
}

var _ = configFileName
