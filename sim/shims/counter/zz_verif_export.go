package counter

// Export shim overlaid into internal/counter by verif's simulation build. It
// only exposes unexported identifiers to the harness; it contains no logic of
// its own.

import (
	"os"
	"runtime/debug"
	"sync"
	"time"

	"golang.org/x/telemetry/internal/mmap"
)

type VerifFile = file

// VerifNewFile returns an independent counter file object, as a separate
// process would have.
func VerifNewFile(bi *debug.BuildInfo) *file { return &file{buildInfo: bi} }

func (f *file) VerifNewCounter(name string) *Counter { return &Counter{name: name, file: f} }

func (f *file) VerifNewStack(name string, depth int) *StackCounter {
	return &StackCounter{name: name, depth: depth, file: f}
}

func (f *file) VerifRotate()            { f.rotate() }
func (f *file) VerifRotate1() time.Time { return f.rotate1() }
func (f *file) VerifErr() error         { return f.err }
func (f *file) VerifMu() *sync.Mutex    { return &f.mu }

// VerifCurrent reports the path and mapped length of the current mapping.
func (f *file) VerifCurrent() (name string, mappedLen int, ok bool) {
	m := f.current.Load()
	if m == nil {
		return "", 0, false
	}
	if m.f != nil {
		name = m.f.Name()
	}
	if m.mapping != nil {
		mappedLen = len(m.mapping.Data)
	}
	return name, mappedLen, true
}

// VerifCurrentData returns the mmap.Data of the current mapping (nil if none).
func (f *file) VerifCurrentData() *mmap.Data {
	m := f.current.Load()
	if m == nil {
		return nil
	}
	return m.mapping
}

func (f *file) VerifClose() {
	if m := f.current.Load(); m != nil {
		m.close()
	}
}

// VerifRegistered reports whether c is reachable from the file's counter list.
func (f *file) VerifRegistered(c *Counter) bool {
	head := f.counters.Load()
	if head == nil {
		return false
	}
	for x := head; x != nil && x != &f.end; x = x.next.Load() {
		if x == c {
			return true
		}
	}
	return false
}

func (c *Counter) VerifNextSet() bool { return c.next.Load() != nil }

// VerifState decodes the counter's state word.
func (c *Counter) VerifState() (readers int, locked, havePtr bool, extra uint64, ptrNil bool) {
	s := c.state.load()
	return s.readers(), s.locked(), s.havePtr(), s.extra(), c.ptr.count == nil
}

// VerifPtrData returns the mapping the counter's cell pointer belongs to.
func (c *Counter) VerifPtrData() *mmap.Data {
	if c.ptr.m == nil {
		return nil
	}
	return c.ptr.m.mapping
}

// VerifCounters lists the counters without taking the lock (the simulation runs
// one task at a time, and the oracle must not block on a parked lock holder).
func (c *StackCounter) VerifCounters() []*Counter {
	var cs []*Counter
	for _, s := range c.stacks {
		if s.counter != nil {
			cs = append(cs, s.counter)
		}
	}
	return cs
}

// VerifSetMmap installs the mmap / munmap functions (an existing seam: package
// variables of file.go). It returns the previous pair.
func VerifSetMmap(mm func(*os.File) (*mmap.Data, error), mu func(*mmap.Data) error) (func(*os.File) (*mmap.Data, error), func(*mmap.Data) error) {
	om, ou := memmap, munmap
	memmap, munmap = mm, mu
	return om, ou
}

// VerifResetDefault resets the process-global default file between runs.
func VerifResetDefault() {
	defaultFile = file{}
	openOnce = sync.Once{}
	rotating = false
}

func VerifDefaultFile() *file { return &defaultFile }

func VerifHash(name string) uint32 { return hash(name) }

const VerifPageSize = pageSize
