// Package crashmonitor: verif's stub used only by the start-world harness (H7).
// The real Parent/Child take over the process's crash output and standard
// input; in the simulated process table there is neither. The stub records
// that it was called.
package crashmonitor

import "os"

var (
	VerifParentCalls int
	VerifChildCalls  int
)

func Parent(pipe *os.File) {
	VerifParentCalls++
	if pipe != nil {
		pipe.Close()
	}
}

func Child() { VerifChildCalls++ }
