package view

// Export shim overlaid into cmd/gotelemetry/internal/view by verif's
// simulation build: exposes what the viewer says about a counter file.

import (
	"io/fs"
	"net/http"

	"golang.org/x/telemetry/internal/config"
	tcounter "golang.org/x/telemetry/internal/counter"
	"golang.org/x/telemetry/internal/telemetry"
)

type VerifFileView struct {
	ActiveMeta map[string]bool
	Counts     map[string]bool // counter name -> shown as active (would be uploaded)
	Stacks     map[string]bool // full stack name -> shown as active
	Summary    string
}

func VerifNewCounterFile(name string, c *tcounter.File, cfg *config.Config) *VerifFileView {
	cf := newCounterFile(name, c, cfg)
	v := &VerifFileView{ActiveMeta: cf.ActiveMeta, Counts: map[string]bool{}, Stacks: map[string]bool{}, Summary: string(cf.Summary)}
	for _, x := range cf.Counts {
		v.Counts[x.Name] = x.Active
	}
	for _, x := range cf.Stacks {
		v.Stacks[x.Name+"\n"+x.Trace] = x.Active
	}
	return v
}

// VerifNewTelemetryReport exposes what the viewer says about each program of a
// local weekly report: the summary text, in the report's program order.
func VerifNewTelemetryReport(r *telemetry.Report, cfg *config.Config) ([]string, error) {
	tr, err := newTelemetryReport(r, cfg)
	if err != nil {
		return nil, err
	}
	var out []string
	for _, p := range tr.Programs {
		out = append(out, string(p.Summary))
	}
	return out, nil
}

// VerifIndexHandler is the viewer's index page handler as Serve installs it:
// one Server, one handler value that serves every page of the process. The
// configuration is read from fsConfig (the -config flag of gotelemetry view).
func VerifIndexHandler(fsConfig string, fsys fs.FS) http.Handler {
	s := &Server{FsConfig: fsConfig}
	return s.handleIndex(fsys)
}
