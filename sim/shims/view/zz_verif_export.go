package view

// Export shim overlaid into cmd/gotelemetry/internal/view by verif's
// simulation build: exposes what the viewer says about a counter file.

import (
	"golang.org/x/telemetry/internal/config"
	tcounter "golang.org/x/telemetry/internal/counter"
)

type VerifFileView struct {
	ActiveMeta map[string]bool
	Counts     map[string]bool // counter name -> shown as active (would be uploaded)
	Stacks     map[string]bool // full stack name -> shown as active
	Summary    string
}

func VerifNewCounterFile(name string, c *tcounter.File, cfg *config.Config) *VerifFileView {
	cf := newCounterFile(name, c, cfg)
	v := &VerifFileView{ActiveMeta: cf.ActiveMeta, Counts: map[string]bool{}, Stacks: map[string]bool{}, Summary: string(cf.Summary)}
	for _, x := range cf.Counts {
		v.Counts[x.Name] = x.Active
	}
	for _, x := range cf.Stacks {
		v.Stacks[x.Name+"\n"+x.Trace] = x.Active
	}
	return v
}
