package simrt

import (
	"errors"
	"io/fs"
	"os"
	"path/filepath"
	"strconv"
	"strings"
	"syscall"
	"time"
)

// The file-system shim. The file system underneath is the real one (tmpfs):
// O_EXCL atomicity, unlink-while-open and MAP_SHARED coherence are the
// kernel's. The shim adds a scheduling point before every call, the fault
// plan, virtual modification times, and the log of every call with its
// relative path.

// FsCall describes one file-system call made by the system under test.
type FsCall struct {
	Idx      int // global index of the call in this run
	Step     int
	Task     *Task
	Proc     *Proc
	Op       string
	Path     string // relative to Sim.Root
	Path2    string
	Flags    int
	Mutating bool
	Err      error
	Injected bool
	N        int // bytes written for write ops
}

var mutatingOp = map[string]bool{
	"create": true, "open-trunc": true, "write": true, "writeat": true, "remove": true, "removeall": true,
	"mkdir": true, "mkdirall": true, "rename": true, "link": true, "truncate": true, "writefile-open": true,
	"writefile-write": true, "ftruncate": true, "chmod": true,
}

// pre is the common prologue: scheduling point, fault decision. If it returns a
// non-nil error the call must not be performed.
func (s *Sim) pre(op, path string, flags int) (*FsCall, error) {
	rel := s.Rel(path)
	t := s.cur
	if t != nil {
		Yield("fs:" + op + " " + rel)
	}
	c := &FsCall{Idx: s.FsCalls, Step: s.Steps, Task: t, Op: op, Path: rel, Flags: flags}
	if t != nil {
		c.Proc = t.Proc
	}
	c.Mutating = mutatingOp[op] || (op == "open" && flags&(os.O_CREATE|os.O_TRUNC) != 0)
	s.FsCalls++
	if s.FaultFn != nil && t != nil {
		if err := s.FaultFn(c); err != nil {
			c.Err = err
			c.Injected = true
			s.FaultsHit[op+":"+errName(err)]++
			s.post(c)
			return c, &fs.PathError{Op: op, Path: path, Err: err}
		}
	}
	return c, nil
}

func errName(err error) string {
	var en syscall.Errno
	if errors.As(err, &en) {
		switch en {
		case syscall.ENOENT:
			return "ENOENT"
		case syscall.EACCES:
			return "EACCES"
		case syscall.EROFS:
			return "EROFS"
		case syscall.ENOSPC:
			return "ENOSPC"
		case syscall.EIO:
			return "EIO"
		case syscall.EMFILE:
			return "EMFILE"
		case syscall.EINTR:
			return "EINTR"
		case syscall.EEXIST:
			return "EEXIST"
		case syscall.ENOTDIR:
			return "ENOTDIR"
		case syscall.EISDIR:
			return "EISDIR"
		case syscall.ENOMEM:
			return "ENOMEM"
		}
		return en.Error()
	}
	if err == nil {
		return "ok"
	}
	return "err"
}

func (s *Sim) post(c *FsCall) {
	if c.Task == nil {
		return
	}
	s.CallLog = append(s.CallLog, c)
	tag := ""
	if c.Injected {
		tag = " INJECTED"
	}
	s.Logf("fs", "%s %s -> %s%s", c.Op, c.Path, errName(c.Err), tag)
}

func (s *Sim) touch(path string) { s.mtime[path] = s.now }

// SetMtime sets the virtual modification time of a file.
func (s *Sim) SetMtime(path string, t time.Time) { s.mtime[path] = t }

type vinfo struct {
	os.FileInfo
	mod time.Time
}

func (v vinfo) ModTime() time.Time { return v.mod }

func (s *Sim) wrapInfo(path string, fi os.FileInfo) os.FileInfo {
	if fi == nil {
		return nil
	}
	if m, ok := s.mtime[path]; ok {
		return vinfo{fi, m}
	}
	return vinfo{fi, s.Start}
}

func OS_OpenFile(name string, flag int, perm os.FileMode) (*os.File, error) {
	s := S
	if s == nil {
		return os.OpenFile(name, flag, perm)
	}
	op := "open"
	if flag&os.O_EXCL != 0 && flag&os.O_CREATE != 0 {
		op = "create-excl"
	} else if flag&os.O_TRUNC != 0 {
		op = "open-trunc"
	} else if flag&os.O_CREATE != 0 {
		op = "open-create"
	}
	c, err := s.pre(op, name, flag)
	if err != nil {
		return nil, err
	}
	c.Mutating = flag&(os.O_CREATE|os.O_TRUNC) != 0
	_, statErr := os.Lstat(name)
	f, err := os.OpenFile(name, flag, perm)
	c.Err = err
	if err == nil && (flag&os.O_TRUNC != 0 || (statErr != nil && flag&os.O_CREATE != 0)) {
		s.touch(name)
	}
	if err == nil && statErr == nil && flag&os.O_TRUNC == 0 {
		// Opening an existing file without truncation changes nothing.
		c.Mutating = false
	}
	s.post(c)
	return f, err
}

func OS_Open(name string) (*os.File, error) { return OS_OpenFile(name, os.O_RDONLY, 0) }

func OS_Create(name string) (*os.File, error) {
	return OS_OpenFile(name, os.O_RDWR|os.O_CREATE|os.O_TRUNC, 0666)
}

func OS_ReadFile(name string) ([]byte, error) {
	s := S
	if s == nil {
		return os.ReadFile(name)
	}
	c, err := s.pre("readfile", name, 0)
	if err != nil {
		return nil, err
	}
	b, err := os.ReadFile(name)
	c.Err = err
	c.N = len(b)
	s.post(c)
	return b, err
}

// OS_WriteFile is open(O_TRUNC|O_CREATE) then write then close, with a
// scheduling point and a fault point before each of the first two, as in the
// real call.
func OS_WriteFile(name string, data []byte, perm os.FileMode) error {
	s := S
	if s == nil {
		return os.WriteFile(name, data, perm)
	}
	c, err := s.pre("writefile-open", name, os.O_WRONLY|os.O_CREATE|os.O_TRUNC)
	if err != nil {
		return err
	}
	f, err := os.OpenFile(name, os.O_WRONLY|os.O_CREATE|os.O_TRUNC, perm)
	c.Err = err
	if err == nil {
		s.touch(name)
	}
	s.post(c)
	if err != nil {
		return err
	}
	c2, err := s.pre("writefile-write", name, 0)
	if err != nil {
		f.Close()
		return err
	}
	n := len(data)
	if s.ShortFn != nil && s.cur != nil {
		n = s.ShortFn(c2, len(data))
	}
	if n < len(data) {
		f.Write(data[:n])
		f.Close()
		s.touch(name)
		c2.Err = syscall.ENOSPC
		c2.Injected = true
		c2.N = n
		s.FaultsHit["short-write"]++
		s.post(c2)
		return &fs.PathError{Op: "write", Path: name, Err: syscall.ENOSPC}
	}
	_, err = f.Write(data)
	if err1 := f.Close(); err1 != nil && err == nil {
		err = err1
	}
	s.touch(name)
	c2.Err = err
	c2.N = len(data)
	s.post(c2)
	return err
}

func OS_Stat(name string) (os.FileInfo, error) {
	s := S
	if s == nil {
		return os.Stat(name)
	}
	c, err := s.pre("stat", name, 0)
	if err != nil {
		return nil, err
	}
	fi, err := os.Stat(name)
	c.Err = err
	s.post(c)
	if err != nil {
		return nil, err
	}
	return s.wrapInfo(name, fi), nil
}

func OS_Lstat(name string) (os.FileInfo, error) {
	s := S
	if s == nil {
		return os.Lstat(name)
	}
	c, err := s.pre("lstat", name, 0)
	if err != nil {
		return nil, err
	}
	fi, err := os.Lstat(name)
	c.Err = err
	s.post(c)
	if err != nil {
		return nil, err
	}
	return s.wrapInfo(name, fi), nil
}

func OS_Remove(name string) error {
	s := S
	if s == nil {
		return os.Remove(name)
	}
	c, err := s.pre("remove", name, 0)
	if err != nil {
		return err
	}
	err = os.Remove(name)
	c.Err = err
	s.post(c)
	return err
}

func OS_RemoveAll(name string) error {
	s := S
	if s == nil {
		return os.RemoveAll(name)
	}
	c, err := s.pre("removeall", name, 0)
	if err != nil {
		return err
	}
	err = os.RemoveAll(name)
	c.Err = err
	s.post(c)
	return err
}

func OS_MkdirAll(path string, perm os.FileMode) error {
	s := S
	if s == nil {
		return os.MkdirAll(path, perm)
	}
	c, err := s.pre("mkdirall", path, 0)
	if err != nil {
		return err
	}
	if fi, e := os.Stat(path); e == nil && fi.IsDir() {
		c.Mutating = false
	}
	err = os.MkdirAll(path, perm)
	c.Err = err
	s.post(c)
	return err
}

func OS_Mkdir(path string, perm os.FileMode) error {
	s := S
	if s == nil {
		return os.Mkdir(path, perm)
	}
	c, err := s.pre("mkdir", path, 0)
	if err != nil {
		return err
	}
	err = os.Mkdir(path, perm)
	c.Err = err
	s.post(c)
	return err
}

func OS_ReadDir(name string) ([]os.DirEntry, error) {
	s := S
	if s == nil {
		return os.ReadDir(name)
	}
	c, err := s.pre("readdir", name, 0)
	if err != nil {
		return nil, err
	}
	ents, err := os.ReadDir(name)
	c.Err = err
	s.post(c)
	return ents, err
}

func OS_Rename(oldpath, newpath string) error {
	s := S
	if s == nil {
		return os.Rename(oldpath, newpath)
	}
	c, err := s.pre("rename", oldpath, 0)
	if err != nil {
		return err
	}
	c.Path2 = s.Rel(newpath)
	err = os.Rename(oldpath, newpath)
	if err == nil {
		if m, ok := s.mtime[oldpath]; ok {
			s.mtime[newpath] = m
			delete(s.mtime, oldpath)
		}
	}
	c.Err = err
	s.post(c)
	return err
}

func OS_Link(oldname, newname string) error {
	s := S
	if s == nil {
		return os.Link(oldname, newname)
	}
	c, err := s.pre("link", newname, 0)
	if err != nil {
		return err
	}
	c.Path2 = s.Rel(oldname)
	// The system's temporary directory is another file system than the
	// simulated machine's directories (as /tmp often is): a hard link from
	// there into the world fails as it does across devices.
	if s.Root != "" && !strings.HasPrefix(oldname, s.Root) && strings.HasPrefix(newname, s.Root) {
		c.Err = &os.LinkError{Op: "link", Old: oldname, New: newname, Err: syscall.EXDEV}
		s.post(c)
		return c.Err
	}
	err = os.Link(oldname, newname)
	if err == nil {
		if m, ok := s.mtime[oldname]; ok {
			s.mtime[newname] = m
		}
	}
	c.Err = err
	s.post(c)
	return err
}

func OS_Truncate(name string, size int64) error {
	s := S
	if s == nil {
		return os.Truncate(name, size)
	}
	c, err := s.pre("truncate", name, 0)
	if err != nil {
		return err
	}
	err = os.Truncate(name, size)
	if err == nil {
		s.touch(name)
	}
	c.Err = err
	s.post(c)
	return err
}

func OS_Chmod(name string, mode os.FileMode) error {
	s := S
	if s == nil {
		return os.Chmod(name, mode)
	}
	c, err := s.pre("chmod", name, 0)
	if err != nil {
		return err
	}
	err = os.Chmod(name, mode)
	c.Err = err
	s.post(c)
	return err
}

// OS_CreateTemp replaces os.CreateTemp. In simulation the random part of the
// name is a per-run sequence number, so that paths (and therefore the event
// log) are deterministic.
func OS_CreateTemp(dir, pattern string) (*os.File, error) {
	s := S
	if s == nil || s.cur == nil {
		return os.CreateTemp(dir, pattern)
	}
	if dir == "" {
		dir = os.TempDir()
	}
	c, err := s.pre("createtemp", filepath.Join(dir, pattern), os.O_CREATE)
	if err != nil {
		return nil, err
	}
	c.Mutating = true
	prefix, suffix := pattern, ""
	if i := strings.LastIndexByte(pattern, '*'); i >= 0 {
		prefix, suffix = pattern[:i], pattern[i+1:]
	}
	var f *os.File
	for try := 0; try < 10000; try++ {
		s.tmpSeq++
		name := filepath.Join(dir, prefix+strconv.Itoa(s.tmpSeq)+suffix)
		f, err = os.OpenFile(name, os.O_RDWR|os.O_CREATE|os.O_EXCL, 0600)
		if os.IsExist(err) {
			continue
		}
		break
	}
	c.Err = err
	if err == nil {
		c.Path = s.Rel(f.Name())
		s.touch(f.Name())
	}
	s.post(c)
	return f, err
}

// ---- methods of *os.File

func File_Stat(f *os.File) (os.FileInfo, error) {
	s := S
	if s == nil || f == nil {
		return f.Stat()
	}
	c, err := s.pre("fstat", f.Name(), 0)
	if err != nil {
		return nil, err
	}
	fi, err := f.Stat()
	c.Err = err
	s.post(c)
	if err != nil {
		return nil, err
	}
	return s.wrapInfo(f.Name(), fi), nil
}

func File_Write(f *os.File, b []byte) (int, error) {
	s := S
	if s == nil || f == nil {
		return f.Write(b)
	}
	c, err := s.pre("write", f.Name(), 0)
	if err != nil {
		return 0, err
	}
	n := len(b)
	if s.ShortFn != nil && s.cur != nil {
		n = s.ShortFn(c, len(b))
	}
	if n < len(b) {
		w, _ := f.Write(b[:n])
		s.touch(f.Name())
		c.Err = syscall.ENOSPC
		c.Injected = true
		c.N = w
		s.FaultsHit["short-write"]++
		s.post(c)
		return w, &fs.PathError{Op: "write", Path: f.Name(), Err: syscall.ENOSPC}
	}
	w, err := f.Write(b)
	s.touch(f.Name())
	c.Err = err
	c.N = w
	s.post(c)
	return w, err
}

func File_WriteString(f *os.File, str string) (int, error) { return File_Write(f, []byte(str)) }

func File_WriteAt(f *os.File, b []byte, off int64) (int, error) {
	s := S
	if s == nil || f == nil {
		return f.WriteAt(b, off)
	}
	c, err := s.pre("writeat", f.Name(), 0)
	if err != nil {
		return 0, err
	}
	n := len(b)
	if s.ShortFn != nil && s.cur != nil {
		n = s.ShortFn(c, len(b))
	}
	if n < len(b) {
		w, _ := f.WriteAt(b[:n], off)
		s.touch(f.Name())
		c.Err = syscall.ENOSPC
		c.Injected = true
		c.N = w
		s.FaultsHit["short-write"]++
		s.post(c)
		return w, &fs.PathError{Op: "write", Path: f.Name(), Err: syscall.ENOSPC}
	}
	w, err := f.WriteAt(b, off)
	s.touch(f.Name())
	c.Err = err
	c.N = w
	s.post(c)
	return w, err
}

func File_Close(f *os.File) error {
	s := S
	if s == nil || f == nil {
		return f.Close()
	}
	// Closing is a scheduling point but not a fault point: a failed close of
	// a descriptor still releases it.
	if s.cur != nil {
		Yield("fs:close " + s.Rel(f.Name()))
	}
	return f.Close()
}

func File_Truncate(f *os.File, size int64) error {
	s := S
	if s == nil || f == nil {
		return f.Truncate(size)
	}
	c, err := s.pre("ftruncate", f.Name(), 0)
	if err != nil {
		return err
	}
	err = f.Truncate(size)
	if err == nil {
		s.touch(f.Name())
	}
	c.Err = err
	s.post(c)
	return err
}

func File_Sync(f *os.File) error {
	s := S
	if s == nil || f == nil {
		return f.Sync()
	}
	c, err := s.pre("fsync", f.Name(), 0)
	if err != nil {
		return err
	}
	err = f.Sync()
	c.Err = err
	s.post(c)
	return err
}

func File_Read(f *os.File, b []byte) (int, error) {
	s := S
	if s == nil || f == nil {
		return f.Read(b)
	}
	c, err := s.pre("read", f.Name(), 0)
	if err != nil {
		return 0, err
	}
	n, err := f.Read(b)
	c.Err = nil
	s.post(c)
	return n, err
}

func File_ReadAt(f *os.File, b []byte, off int64) (int, error) {
	s := S
	if s == nil || f == nil {
		return f.ReadAt(b, off)
	}
	c, err := s.pre("readat", f.Name(), 0)
	if err != nil {
		return 0, err
	}
	n, err := f.ReadAt(b, off)
	c.Err = nil
	s.post(c)
	return n, err
}

// Mmap-level calls go through package variables of internal/counter (an
// existing seam); the harness wraps them with PreSys / PostSys so that they are
// scheduling and fault points like every other call.

// PreSys is the prologue for a system call that is not an os.* function.
func PreSys(op, path string) (*FsCall, error) {
	s := S
	if s == nil {
		return nil, nil
	}
	c, err := s.pre(op, path, 0)
	if err != nil {
		var pe *fs.PathError
		if errors.As(err, &pe) {
			return c, pe
		}
	}
	return c, err
}

// PostSys records the outcome of a call started with PreSys.
func PostSys(c *FsCall, err error) {
	s := S
	if s == nil || c == nil {
		return
	}
	c.Err = err
	s.post(c)
}
