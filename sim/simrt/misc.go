package simrt

import (
	"fmt"
	"sort"
)

// MapKeys returns the keys of m in the order in which a rewritten
// `for k := range m` visits them. Without simulation that is Go's own order; in
// simulation the keys are sorted and then permuted by the tape (the identity
// permutation is the benign choice), which is a legal refinement of Go's
// unspecified iteration order.
func MapKeys[M ~map[K]V, K comparable, V any](m M) []K {
	keys := make([]K, 0, len(m))
	for k := range m {
		keys = append(keys, k)
	}
	s := S
	if s == nil {
		return keys
	}
	if len(keys) > 1 {
		strs := make([]string, len(keys))
		idx := make([]int, len(keys))
		for i, k := range keys {
			strs[i] = fmt.Sprint(k)
			idx[i] = i
		}
		sort.SliceStable(idx, func(a, b int) bool { return strs[idx[a]] < strs[idx[b]] })
		sorted := make([]K, len(keys))
		for i, j := range idx {
			sorted[i] = keys[j]
		}
		keys = sorted
		if s.PermuteMaps {
			for i := 0; i < len(keys)-1; i++ {
				j := i + s.Tape.Biased(len(keys)-i, 1, 2)
				keys[i], keys[j] = keys[j], keys[i]
			}
		}
	}
	return keys
}
