package simrt

import (
	"bytes"
	"io"
	"net/http"
	"strconv"
)

// Request is one client send event observed by the simulated transport.
type Request struct {
	Seq         int
	Step        int
	Task        *Task
	Proc        *Proc
	URL         string
	ContentType string
	Body        []byte
	Status      int   // status returned to the client (0 if none)
	Err         error // transport error returned to the client
	Delivered   int   // number of times the server processed the request
	Note        string
}

// HTTPPost replaces net/http.Post. There is no socket: the harness's Transport
// function decides the fate of the request (and may hand it to a real handler).
func HTTPPost(url, contentType string, body io.Reader) (*http.Response, error) {
	s := S
	if s == nil || s.cur == nil {
		return http.Post(url, contentType, body)
	}
	Yield("http:post " + url)
	var buf []byte
	if body != nil {
		b, err := io.ReadAll(body)
		if err != nil {
			return nil, err
		}
		buf = b
	}
	r := &Request{Seq: len(s.Requests), Step: s.Steps, Task: s.cur, Proc: s.cur.Proc, URL: url, ContentType: contentType, Body: buf}
	s.Requests = append(s.Requests, r)
	status, err := 200, error(nil)
	if s.Transport != nil {
		status, err = s.Transport(r)
	}
	r.Status, r.Err = status, err
	if err != nil {
		r.Status = 0
		s.Logf("http", "post %s len=%d -> error %v", url, len(buf), err)
		// The answer (or its absence) reaches the client after another scheduling point.
		Yield("http:result " + url)
		return nil, err
	}
	s.Logf("http", "post %s len=%d -> %d", url, len(buf), status)
	Yield("http:result " + url)
	return &http.Response{
		Status:     strconv.Itoa(status) + " " + http.StatusText(status),
		StatusCode: status,
		Proto:      "HTTP/1.1",
		ProtoMajor: 1,
		ProtoMinor: 1,
		Header:     http.Header{},
		Body:       io.NopCloser(bytes.NewReader(nil)),
	}, nil
}
