package simrt

import (
	"fmt"
	"log"
	"os"
	"os/exec"
	"sort"
	"strings"
)

// Simulated process table: environment, pid, exit, and process creation.

func Getenv(key string) string {
	if p := CurProc(); p != nil {
		return p.Env[key]
	}
	return os.Getenv(key)
}

func LookupEnv(key string) (string, bool) {
	if p := CurProc(); p != nil {
		v, ok := p.Env[key]
		return v, ok
	}
	return os.LookupEnv(key)
}

func Setenv(key, value string) error {
	if p := CurProc(); p != nil {
		p.Env[key] = value
		return nil
	}
	return os.Setenv(key, value)
}

func Unsetenv(key string) error {
	if p := CurProc(); p != nil {
		delete(p.Env, key)
		return nil
	}
	return os.Unsetenv(key)
}

func Environ() []string {
	if p := CurProc(); p != nil {
		var env []string
		for k, v := range p.Env {
			env = append(env, k+"="+v)
		}
		sort.Strings(env)
		return env
	}
	return os.Environ()
}

func Getpid() int {
	if p := CurProc(); p != nil {
		return 1000 + p.ID
	}
	return os.Getpid()
}

func Executable() (string, error) {
	if p := CurProc(); p != nil {
		return "/sim/bin/" + p.Name, nil
	}
	return os.Executable()
}

// Exit replaces os.Exit: the simulated process is gone, no deferred function
// runs, and the calling goroutine never continues.
func Exit(code int) {
	s := S
	if s == nil || s.cur == nil {
		os.Exit(code)
	}
	t := s.cur
	t.Proc.Exited = true
	t.Proc.ExitCode = code
	s.Logf("proc", "exit proc=%d code=%d", t.Proc.ID, code)
	s.parkForever(t)
}

func LogFatalf(format string, args ...any) {
	s := S
	if s == nil || s.cur == nil {
		log.Fatalf(format, args...)
	}
	s.Logf("proc", "fatal: %s", fmt.Sprintf(format, args...))
	Exit(1)
}

func LogFatal(args ...any) {
	s := S
	if s == nil || s.cur == nil {
		log.Fatal(args...)
	}
	s.Logf("proc", "fatal: %s", fmt.Sprint(args...))
	Exit(1)
}

func LogFatalln(args ...any) { LogFatal(args...) }

// CmdStart replaces (*exec.Cmd).Start. The harness's SpawnFn creates the tasks
// of the child process.
func CmdStart(cmd *exec.Cmd) error {
	s := S
	if s == nil || s.cur == nil {
		return cmd.Start()
	}
	Yield("proc:start " + strings.Join(cmd.Args, " "))
	parent := s.cur.Proc
	if s.StartFailFn != nil {
		if err := s.StartFailFn(parent, cmd); err != nil {
			s.FaultsHit["proc:start:"+errName(err)]++
			s.Logf("proc", "start by proc=%d fails: %v (injected)", parent.ID, err)
			return &os.PathError{Op: "fork/exec", Path: cmd.Path, Err: err}
		}
	}
	child := &Proc{ID: len(s.Procs), Name: parent.Name, Env: map[string]string{}, Parent: parent, Args: cmd.Args}
	env := cmd.Env
	if env == nil {
		env = Environ()
	}
	for _, kv := range env {
		if k, v, ok := strings.Cut(kv, "="); ok {
			child.Env[k] = v
		}
	}
	s.Procs = append(s.Procs, child)
	s.Spawns = append(s.Spawns, child)
	s.cmds[cmd] = child
	s.Logf("proc", "spawn proc=%d parent=%d args=%q", child.ID, parent.ID, cmd.Args)
	if s.SpawnFn != nil {
		s.SpawnFn(parent, child)
	} else {
		child.Exited = true
	}
	return nil
}

func (s *Sim) procFinished(p *Proc) bool {
	if p.Dead() {
		return true
	}
	for _, t := range s.Tasks {
		if t.Proc == p && !t.Done {
			return false
		}
	}
	return true
}

func CmdWait(cmd *exec.Cmd) error {
	s := S
	if s == nil || s.cur == nil {
		return cmd.Wait()
	}
	child := s.cmds[cmd]
	if child == nil {
		return fmt.Errorf("exec: not started")
	}
	Yield("proc:wait")
	s.block(s.cur, "proc:wait (wait)", func() bool { return s.procFinished(child) })
	if child.ExitCode != 0 {
		return fmt.Errorf("exit status %d", child.ExitCode)
	}
	return nil
}

func CmdRun(cmd *exec.Cmd) error {
	if s := S; s != nil && s.cur != nil && s.RunFn != nil {
		if handled, err := s.RunFn(cmd); handled {
			return err
		}
	}
	if err := CmdStart(cmd); err != nil {
		return err
	}
	return CmdWait(cmd)
}
