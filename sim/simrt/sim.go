package simrt

import (
	"fmt"
	"math/rand"
	"os/exec"
	"reflect"
	"runtime/debug"
	"sort"
	"strings"
	"time"
)

// S is the simulation attached to this OS process, or nil. Exactly one task (or
// the scheduler itself) runs at any moment and control is handed over through
// channels, so S and everything reachable from it is accessed without locks.
var S *Sim

// A Proc is a simulated operating-system process: a set of tasks, an
// environment and a pid. Killing it stops its tasks forever without unwinding
// them: no deferred call runs, exactly like SIGKILL.
type Proc struct {
	ID       int
	Name     string
	Env      map[string]string
	Parent   *Proc
	Killed   bool
	Exited   bool
	ExitCode int
	Args     []string
	Data     any // harness payload
}

func (p *Proc) Dead() bool { return p.Killed || p.Exited }

// A Task is a simulated thread: a real goroutine that only runs while it holds
// the scheduler's token.
type Task struct {
	ID        int
	Proc      *Proc
	Name      string
	Label     string // label of the operation the task is about to perform
	LastLabel string // label of the operation performed in the task's latest step
	Steps     int
	Done      bool
	// Panic is the value recovered from the task's function, if it panicked.
	Panic      any
	PanicStack string

	wake    chan struct{}
	cond    func() bool // non-nil: the task is blocked until cond() is true
	condWhy string
	tick    int
	prio    int
	// LastNow is the simulated time this task last read from the clock.
	LastNow time.Time
	hasPrio bool
	Data    any
}

func (t *Task) Blocked() bool { return t.cond != nil && !t.cond() }

type timer struct {
	at   time.Time
	seq  uint64
	proc *Proc
	name string
	f    func()
	dead bool
}

// Strategy selects how the next task is drawn in generation mode. The outcome
// (an index into the ordered list of runnable tasks) is what the tape records,
// so replay does not depend on the strategy.
type Strategy int

const (
	StratUniform Strategy = iota
	StratBursty
	StratPCT
	StratDelay
	NumStrategies
)

type Sim struct {
	Tape  *Tape
	Root  string // directory prefix stripped from paths in labels and logs
	Procs []*Proc
	Tasks []*Task

	cur  *Task
	last *Task
	back chan struct{}

	Steps    int
	MaxSteps int
	Stop     bool // set by the harness to end the run (first violation)

	now     time.Time
	Start   time.Time
	timers  []*timer
	seq     uint64
	SimTime time.Duration // total simulated time advanced

	Strat       Strategy
	BurstNum    int // bursty: probability BurstNum/BurstDen of staying on the current task
	BurstDen    int
	pctChange   map[int]bool
	pctLow      int
	delays      []*delayRule
	delayedTill map[*Task]int
	PermuteMaps bool                                    // map iteration order is drawn from the tape
	LoopOverrun string                                  // set when a task exhausted its loop budget (where)
	Zone        *time.Location                          // the machine's local time zone (nil: UTC); what time.Now() carries
	StartFailFn func(parent *Proc, cmd *exec.Cmd) error // non-nil result: the process start fails with it
	// RunFn, when set, plays the part of an external command that is run to
	// completion ((*exec.Cmd).Run): it may write the command's output to
	// cmd.Stdout/cmd.Stderr and returns whether it handled the command and the
	// command's result. Unhandled commands go through the process table.
	RunFn       func(cmd *exec.Cmd) (handled bool, err error)
	AutoAdvance bool // when nothing is runnable, jump the clock to the next timer

	muOwner map[any]*Task
	rwRead  map[any]int
	once    map[any]*onceState
	wg      map[any]int
	groups  map[any]*groupState

	// Quarantine, if set, reports whether task t must not be scheduled now
	// because its next step lies inside the window of a listed known finding.
	Quarantine func(t *Task) bool
	// AfterStep, if set, runs on the scheduler goroutine after every step.
	AfterStep func(t *Task)

	Hash      uint64
	KeepTrace bool
	Trace     []string
	TraceCap  int

	// File-system shim state (fs.go).
	FsCalls   int
	tmpSeq    int
	FaultFn   func(c *FsCall) error
	ShortFn   func(c *FsCall, n int) int
	CallLog   []*FsCall
	mtime     map[string]time.Time
	FaultsHit map[string]int

	// Transport (net.go).
	Transport func(r *Request) (status int, err error)
	Requests  []*Request

	// Process table (proc.go).
	SpawnFn func(parent *Proc, child *Proc)
	Spawns  []*Proc
	cmds    map[any]*Proc

	// Probes: named rare conditions observed during the run.
	Probes map[string]int

	Overlap int // number of context switches between distinct live tasks
}

func New(tape *Tape, root string, start time.Time) *Sim {
	s := &Sim{
		Tape: tape, Root: root,
		back:      make(chan struct{}),
		now:       start,
		Start:     start,
		MaxSteps:  1 << 20,
		BurstNum:  7,
		BurstDen:  8,
		muOwner:   map[any]*Task{},
		rwRead:    map[any]int{},
		once:      map[any]*onceState{},
		wg:        map[any]int{},
		groups:    map[any]*groupState{},
		mtime:     map[string]time.Time{},
		FaultsHit: map[string]int{},
		Probes:    map[string]int{},
		Hash:      14695981039346656037,
		TraceCap:  20000,
		cmds:      map[any]*Proc{},
	}
	return s
}

// Attach makes s the simulation of this OS process.
func Attach(s *Sim) { S = s }

var savedLocal *time.Location

// SetZone sets the machine's local time zone: what time.Now() carries and what
// the time package takes for time.Local (time.Unix, Time.Local, formatting of
// such values) until the simulation is detached.
func (s *Sim) SetZone(loc *time.Location) {
	s.Zone = loc
	if loc != nil {
		if savedLocal == nil {
			savedLocal = time.Local
		}
		time.Local = loc
	}
}

// Detach removes the simulation. Tasks that are still parked stay parked
// forever (their processes are dead as far as the system under test knows).
func Detach() {
	S = nil
	if savedLocal != nil {
		time.Local = savedLocal
		savedLocal = nil
	}
}

func (s *Sim) NewProc(name string, parent *Proc) *Proc {
	p := &Proc{ID: len(s.Procs), Name: name, Env: map[string]string{}, Parent: parent}
	if parent != nil {
		for k, v := range parent.Env {
			p.Env[k] = v
		}
	}
	s.Procs = append(s.Procs, p)
	return p
}

// Spawn creates a task in process p. It starts running when first scheduled.
func (s *Sim) Spawn(p *Proc, name string, fn func()) *Task {
	t := &Task{ID: len(s.Tasks), Proc: p, Name: name, Label: "start", wake: make(chan struct{})}
	s.Tasks = append(s.Tasks, t)
	go func() {
		<-t.wake
		defer func() {
			if r := recover(); r != nil {
				if _, ok := r.(exitSentinel); !ok {
					t.Panic = r
					t.PanicStack = string(debug.Stack())
				}
			}
			t.Done = true
			s.back <- struct{}{}
		}()
		debug.SetPanicOnFault(true)
		fn()
	}()
	return t
}

type exitSentinel struct{}

// Kill stops process p forever. Nothing is unwound.
func (s *Sim) Kill(p *Proc) {
	if p.Dead() {
		return
	}
	p.Killed = true
	s.Logf("kill", "proc=%d", p.ID)
}

func (s *Sim) runnable(t *Task) bool {
	if t.Done || t.Proc.Dead() {
		return false
	}
	if t.cond != nil && !t.cond() {
		return false
	}
	if s.Quarantine != nil && s.Quarantine(t) {
		return false
	}
	return true
}

// Runnable lists the tasks that may run now: the task that ran last first (so
// that choice 0 means "continue"), then the others by id.
func (s *Sim) Runnable() []*Task {
	var r []*Task
	if s.last != nil && s.runnable(s.last) {
		r = append(r, s.last)
	}
	for _, t := range s.Tasks {
		if t != s.last && s.runnable(t) {
			r = append(r, t)
		}
	}
	return r
}

// Live reports the tasks that are neither finished nor dead.
func (s *Sim) Live() []*Task {
	var r []*Task
	for _, t := range s.Tasks {
		if !t.Done && !t.Proc.Dead() {
			r = append(r, t)
		}
	}
	return r
}

func (s *Sim) pick(r []*Task) int {
	n := len(r)
	return s.Tape.DrawG(n, func(rng *Rand) int {
		switch s.Strat {
		case StratBursty:
			if r[0] == s.last && rng.Intn(s.BurstDen) < s.BurstNum {
				return 0
			}
			return rng.Intn(n)
		case StratPCT:
			if s.pctChange[s.Steps] && s.last != nil {
				s.pctLow--
				s.last.prio = s.pctLow
				s.last.hasPrio = true
			}
			best, bi := 0, -1
			for i, t := range r {
				if !t.hasPrio {
					t.prio = 1 + rng.Intn(1<<20)
					t.hasPrio = true
				}
				if bi < 0 || t.prio > best {
					best, bi = t.prio, i
				}
			}
			return bi
		case StratDelay:
			// Targeted delay: when a task is about to perform its k-th operation
			// of a chosen class it is parked for a while (as long as anyone else
			// can run): a long preemption at an interesting point.
			for _, t := range r {
				for _, d := range s.delays {
					if d.fired || !strings.Contains(t.Label, d.class) {
						continue
					}
					key := [2]int{t.ID, t.Steps}
					if d.seen[key] {
						continue
					}
					d.seen[key] = true
					d.count++
					if d.count == d.k {
						d.fired = true
						s.delayedTill[t] = s.Steps + d.dur
					}
				}
			}
			var free []int
			for i, t := range r {
				if s.delayedTill[t] <= s.Steps {
					free = append(free, i)
				}
			}
			if len(free) == 0 {
				return rng.Intn(n)
			}
			if r[0] == s.last && s.delayedTill[r[0]] <= s.Steps && rng.Intn(4) != 0 {
				return 0
			}
			return free[rng.Intn(len(free))]
		default:
			return rng.Intn(n)
		}
	})
}

type delayRule struct {
	class string
	k     int
	dur   int
	count int
	fired bool
	seen  map[[2]int]bool
}

// SetDelay selects the targeted-delay strategy: n rules, each "park the task
// that is about to perform the k-th operation whose label contains <class> for
// <dur> steps". Rules come from the tape's PRNG and are not recorded: replay
// reads the resulting choices.
func (s *Sim) SetDelay(classes []string, n int) {
	s.Strat = StratDelay
	s.delayedTill = map[*Task]int{}
	s.delays = nil
	if s.Tape.Replay || len(classes) == 0 {
		return
	}
	for i := 0; i < n; i++ {
		s.delays = append(s.delays, &delayRule{class: classes[s.Tape.Rng.Intn(len(classes))], k: 1 + s.Tape.Rng.Intn(10),
			dur: 20 + s.Tape.Rng.Intn(300), seen: map[[2]int]bool{}})
	}
}

// SetDelayRange is SetDelay with the occurrence index drawn from 1..maxK and the
// length of the stall from minDur..maxDur steps.
func (s *Sim) SetDelayRange(classes []string, n, maxK, minDur, maxDur int) {
	s.Strat = StratDelay
	s.delayedTill = map[*Task]int{}
	s.delays = nil
	if s.Tape.Replay || len(classes) == 0 {
		return
	}
	for i := 0; i < n; i++ {
		s.delays = append(s.delays, &delayRule{class: classes[s.Tape.Rng.Intn(len(classes))], k: 1 + s.Tape.Rng.Intn(maxK),
			dur: minDur + s.Tape.Rng.Intn(maxDur-minDur+1), seen: map[[2]int]bool{}})
	}
}

// SetPCT selects the PCT strategy with d priority-change points spread over
// the first horizon steps. The points come from the tape's PRNG and are not
// recorded: replay reads the resulting choices.
func (s *Sim) SetPCT(d, horizon int) {
	s.Strat = StratPCT
	s.pctChange = map[int]bool{}
	if s.Tape.Replay {
		return
	}
	for i := 0; i < d; i++ {
		s.pctChange[s.Tape.Rng.Intn(horizon)] = true
	}
}

// Step runs one task for one step. It reports false when nothing can run.
func (s *Sim) Step() bool {
	s.fireDue()
	r := s.Runnable()
	if len(r) == 0 {
		if s.AutoAdvance && s.advanceToNextTimer() {
			s.fireDue()
			r = s.Runnable()
		}
		if len(r) == 0 {
			return false
		}
	}
	t := r[s.pick(r)]
	s.RunTask(t)
	return true
}

// RunTask gives the token to t until its next yield.
func (s *Sim) RunTask(t *Task) {
	if s.last != nil && s.last != t && !s.last.Done && !s.last.Proc.Dead() {
		s.Overlap++
	}
	s.Steps++
	t.Steps++
	s.logStep(t)
	t.cond = nil
	t.LastLabel = t.Label
	s.cur = t
	s.last = t
	t.wake <- struct{}{}
	<-s.back
	s.cur = nil
	if s.AfterStep != nil {
		s.AfterStep(t)
	}
}

// RunSolo runs only task t until it finishes, blocks, or max steps elapsed.
// It reports whether t finished.
func (s *Sim) RunSolo(t *Task, max int) bool {
	for i := 0; i < max; i++ {
		if s.Stop {
			return true
		}
		if t.Done {
			return true
		}
		if !s.runnable(t) {
			return false
		}
		s.RunTask(t)
	}
	return t.Done
}

// Run steps until nothing can run or the step cap is reached. It reports
// whether the cap was hit.
func (s *Sim) Run() (capped bool) {
	for s.Steps < s.MaxSteps {
		if s.Stop || !s.Step() {
			return false
		}
	}
	return true
}

// Yield is a scheduling point. label names the operation the task is about to
// perform.
func Yield(label string) {
	s := S
	if s == nil {
		return
	}
	t := s.cur
	if t == nil {
		return
	}
	t.Label = label
	t.tick = 0
	s.back <- struct{}{}
	<-t.wake
}

// block parks the current task until cond holds.
func (s *Sim) block(t *Task, label string, cond func() bool) {
	for !cond() {
		t.cond = cond
		t.condWhy = label
		t.Label = label
		t.tick = 0
		s.back <- struct{}{}
		<-t.wake
	}
	t.cond = nil
}

// parkForever never returns: used for exited processes.
func (s *Sim) parkForever(t *Task) {
	t.Done = true
	s.back <- struct{}{}
	select {}
}

// Pt is a scheduling point placed immediately before the call of f: the
// instrumenter rewrites x.Load() into simrt.Pt("...", x.Load)().
func Pt[F any](label string, f F) F {
	Yield(label)
	return f
}

// PtAligned is Pt for an atomic operation on *p, where p is a pointer value the
// program computed (a cell of a mapped file): the operand must be aligned to
// its size. Go panics on an unaligned 64-bit atomic on 386, arm and mips, and
// arm64 cores without LSE2 raise an alignment fault for an unaligned atomic of
// either size; amd64 performs it silently, so the simulation asserts it.
func PtAligned[P any, F any](label string, p P, size int, f F) F {
	Yield(label)
	if a := reflect.ValueOf(p); a.Kind() == reflect.Pointer || a.Kind() == reflect.UnsafePointer {
		if addr := a.Pointer(); addr%uintptr(size) != 0 {
			where := "an alignment fault on arm64 cores without LSE2 and on 32-bit arm"
			if size == 8 {
				where = "a panic on 386, arm and mips, an alignment fault on arm64 cores without LSE2"
			}
			panic(fmt.Sprintf("unaligned %d-bit atomic operation at %s (address %#x): %s", 8*size, label, addr, where))
		}
	}
	return f
}

// Rd is a scheduling point placed immediately before a read of *p.
func Rd[T any](label string, p *T) *T {
	Yield(label)
	return p
}

// Cur returns the running task (nil on the scheduler goroutine or with no
// simulation attached).
func Cur() *Task {
	if S == nil {
		return nil
	}
	return S.cur
}

// CurProc returns the running task's process.
func CurProc() *Proc {
	if t := Cur(); t != nil {
		return t.Proc
	}
	return nil
}

const tickLimit = 10_000_000

// UnboundedLoop is the panic value raised by Tick when a loop body has run
// tickLimit times without reaching a scheduling point.
type UnboundedLoop struct{ Where string }

func (u UnboundedLoop) Error() string { return "unbounded loop without scheduling point: " + u.Where }

var schedTick int

// SchedTickLimit bounds loop iterations of instrumented code called directly
// by a harness on the scheduler goroutine (between two ResetSchedTick calls).
var SchedTickLimit = tickLimit

// Tick is inserted at the top of every loop body of instrumented code.
func Tick(where string) {
	s := S
	if s == nil {
		return
	}
	if t := s.cur; t != nil {
		t.tick++
		if t.tick > tickLimit {
			t.tick = 0
			s.LoopOverrun = where // survives a recover() in the code under test
			panic(UnboundedLoop{where})
		}
		return
	}
	schedTick++
	if schedTick > SchedTickLimit {
		schedTick = 0
		panic(UnboundedLoop{where})
	}
}

// ResetSchedTick resets the loop budget for instrumented code that the harness
// calls directly on the scheduler goroutine (for example Parse in an oracle).
func ResetSchedTick() { schedTick = 0 }

// ---------------------------------------------------------------- event log

func (s *Sim) hashStr(x string) {
	h := s.Hash
	for i := 0; i < len(x); i++ {
		h ^= uint64(x[i])
		h *= 1099511628211
	}
	h ^= 0xff
	h *= 1099511628211
	s.Hash = h
}

func (s *Sim) logStep(t *Task) {
	s.hashStr(t.Label)
	s.Hash ^= uint64(t.ID) + 0x9e37
	s.Hash *= 1099511628211
	if s.KeepTrace && len(s.Trace) < s.TraceCap {
		s.Trace = append(s.Trace, fmt.Sprintf("%5d p%d/t%d %-10s %s", s.Steps, t.Proc.ID, t.ID, t.Name, t.Label))
	}
}

// Logf records an event (results of calls, faults, kills, oracle notes).
func (s *Sim) Logf(kind, format string, args ...any) {
	if s.KeepTrace {
		msg := fmt.Sprintf(format, args...)
		s.hashStr(kind)
		s.hashStr(msg)
		if len(s.Trace) < s.TraceCap {
			s.Trace = append(s.Trace, fmt.Sprintf("      -- %s %s", kind, msg))
		}
		return
	}
	s.hashStr(kind)
	s.hashStr(fmt.Sprintf(format, args...))
}

// Probe counts a rare condition.
func (s *Sim) Probe(name string) { s.Probes[name]++ }

// Rel strips the run's root directory from a path.
func (s *Sim) Rel(p string) string {
	if s.Root != "" && strings.HasPrefix(p, s.Root) {
		r := strings.TrimPrefix(p[len(s.Root):], "/")
		if r == "" {
			return "."
		}
		return r
	}
	return p
}

// ---------------------------------------------------------------- clock

func (s *Sim) NowT() time.Time { return s.now }

// AdvanceTo moves the simulated clock forward (never backward).
func (s *Sim) AdvanceTo(t time.Time) {
	if t.After(s.now) {
		s.SimTime += t.Sub(s.now)
		s.now = t
		s.Logf("clock", "%s", t.UTC().Format(time.RFC3339Nano))
	}
}

func (s *Sim) Advance(d time.Duration) { s.AdvanceTo(s.now.Add(d)) }

// StepBack sets the wall clock back by d (an NTP correction, a user changing
// the date). Timers run on the monotonic clock: they keep their distance from
// now, so their wall-clock deadlines move back with it.
func (s *Sim) StepBack(d time.Duration) {
	s.now = s.now.Add(-d)
	for _, tm := range s.timers {
		tm.at = tm.at.Add(-d)
	}
	s.Logf("clock", "stepped back %s to %s", d, s.now.UTC().Format(time.RFC3339Nano))
}

// StepForward moves the wall clock ahead by d without letting that time pass for
// the timers (the machine was suspended and resumed: timers run on the
// monotonic clock, which stands still meanwhile, so they keep their distance
// from now and their wall-clock deadlines move ahead with it).
func (s *Sim) StepForward(d time.Duration) {
	s.now = s.now.Add(d)
	s.SimTime += d
	for _, tm := range s.timers {
		tm.at = tm.at.Add(d)
	}
	s.Logf("clock", "stepped forward %s to %s (timers keep their distance)", d, s.now.UTC().Format(time.RFC3339Nano))
}

// SetClock sets the clock to an arbitrary instant (used between sessions).
func (s *Sim) SetClock(t time.Time) {
	if t.After(s.now) {
		s.SimTime += t.Sub(s.now)
	}
	s.now = t
	s.Logf("clock", "%s", t.UTC().Format(time.RFC3339Nano))
}

func (s *Sim) addTimer(p *Proc, d time.Duration, name string, f func()) *timer {
	s.seq++
	tm := &timer{at: s.now.Add(d), seq: s.seq, proc: p, name: name, f: f}
	s.timers = append(s.timers, tm)
	sort.SliceStable(s.timers, func(i, j int) bool {
		if !s.timers[i].at.Equal(s.timers[j].at) {
			return s.timers[i].at.Before(s.timers[j].at)
		}
		return s.timers[i].seq < s.timers[j].seq
	})
	return tm
}

// PendingTimers reports the number of timers of live processes not yet fired.
func (s *Sim) PendingTimers() int {
	n := 0
	for _, tm := range s.timers {
		if !tm.dead && !tm.proc.Dead() {
			n++
		}
	}
	return n
}

// NextTimer returns the instant of the earliest pending timer.
func (s *Sim) NextTimer() (time.Time, bool) {
	for _, tm := range s.timers {
		if !tm.dead && !tm.proc.Dead() {
			return tm.at, true
		}
	}
	return time.Time{}, false
}

func (s *Sim) advanceToNextTimer() bool {
	at, ok := s.NextTimer()
	if !ok {
		return false
	}
	s.AdvanceTo(at)
	return true
}

func (s *Sim) fireDue() {
	for len(s.timers) > 0 {
		tm := s.timers[0]
		if tm.at.After(s.now) {
			return
		}
		s.timers = s.timers[1:]
		if tm.dead || tm.proc.Dead() {
			continue
		}
		s.Logf("timer", "fire %s proc=%d", tm.name, tm.proc.ID)
		s.Spawn(tm.proc, "timer:"+tm.name, tm.f)
	}
}

// Now replaces time.Now.
func Now() time.Time {
	if s := S; s != nil {
		if t := s.cur; t != nil {
			t.LastNow = s.now
		}
		if s.Zone != nil {
			return s.now.In(s.Zone) // time.Now() is in the machine's local zone
		}
		return s.now
	}
	return time.Now()
}

// Since replaces time.Since.
func Since(t time.Time) time.Duration {
	if s := S; s != nil {
		return s.now.Sub(t)
	}
	return time.Since(t)
}

// Until replaces time.Until.
func Until(t time.Time) time.Duration {
	if s := S; s != nil {
		return t.Sub(s.now)
	}
	return time.Until(t)
}

// AfterFunc replaces time.AfterFunc. In simulation the function runs as a new
// task of the calling process when the simulated clock reaches the deadline.
// The returned timer is an inert real timer.
func AfterFunc(d time.Duration, f func()) *time.Timer {
	s := S
	if s == nil {
		return time.AfterFunc(d, f)
	}
	p := CurProc()
	if p == nil {
		p = s.Procs[0]
	}
	s.addTimer(p, d, "afterfunc", f)
	s.Logf("timer", "arm +%s proc=%d", d, p.ID)
	rt := time.NewTimer(time.Hour)
	rt.Stop()
	return rt
}

// Sleep replaces time.Sleep.
func Sleep(d time.Duration) {
	s := S
	if s == nil || s.cur == nil {
		if s == nil {
			time.Sleep(d)
		}
		return
	}
	t := s.cur
	wake := s.now.Add(d)
	// A sleeping task needs a timer so that AutoAdvance can find the instant.
	s.addTimer(t.Proc, d, "sleep", func() {})
	s.block(t, "sleep", func() bool { return !s.now.Before(wake) })
}

// Intn replaces math/rand.Intn: the value comes from the tape.
func Intn(n int) int {
	s := S
	if s == nil {
		return rand.Intn(n)
	}
	return s.Tape.Draw(n)
}
