package simrt

import (
	"sync"
)

// Simulated synchronisation. In simulation the real primitive is never
// touched: ownership lives in the Sim, a task that would block is descheduled,
// and a state in which every live task is blocked is a detectable deadlock.

func schedCheckHeld(s *Sim, key any, what string) {
	if o := s.muOwner[key]; o != nil && !o.Proc.Dead() {
		panic("simrt: oracle code would block on " + what + " held by a parked task")
	}
}

func MuLock(label string, mu *sync.Mutex) {
	s := S
	if s == nil {
		mu.Lock()
		return
	}
	t := s.cur
	if t == nil {
		schedCheckHeld(s, mu, "mutex")
		return
	}
	Yield(label)
	s.block(t, label+" (wait)", func() bool { return s.muOwner[mu] == nil })
	s.muOwner[mu] = t
}

func MuUnlock(label string, mu *sync.Mutex) {
	s := S
	if s == nil {
		mu.Unlock()
		return
	}
	if s.cur == nil {
		return
	}
	if s.muOwner[mu] == nil {
		panic("simrt: unlock of unlocked mutex")
	}
	delete(s.muOwner, mu)
}

func MuTryLock(label string, mu *sync.Mutex) bool {
	s := S
	if s == nil {
		return mu.TryLock()
	}
	t := s.cur
	if t == nil {
		return s.muOwner[mu] == nil
	}
	Yield(label)
	if s.muOwner[mu] != nil {
		return false
	}
	s.muOwner[mu] = t
	return true
}

func RWLock(label string, mu *sync.RWMutex) {
	s := S
	if s == nil {
		mu.Lock()
		return
	}
	t := s.cur
	if t == nil {
		schedCheckHeld(s, mu, "rwmutex")
		return
	}
	Yield(label)
	s.block(t, label+" (wait)", func() bool { return s.muOwner[mu] == nil && s.rwRead[mu] == 0 })
	s.muOwner[mu] = t
}

func RWUnlock(label string, mu *sync.RWMutex) {
	s := S
	if s == nil {
		mu.Unlock()
		return
	}
	if s.cur == nil {
		return
	}
	delete(s.muOwner, mu)
}

func RWRLock(label string, mu *sync.RWMutex) {
	s := S
	if s == nil {
		mu.RLock()
		return
	}
	t := s.cur
	if t == nil {
		schedCheckHeld(s, mu, "rwmutex")
		return
	}
	Yield(label)
	s.block(t, label+" (wait)", func() bool { return s.muOwner[mu] == nil })
	s.rwRead[mu]++
}

func RWRUnlock(label string, mu *sync.RWMutex) {
	s := S
	if s == nil {
		mu.RUnlock()
		return
	}
	if s.cur == nil {
		return
	}
	s.rwRead[mu]--
}

type onceState struct {
	state int // 0 not started, 1 running, 2 done
}

// OnceDo replaces (*sync.Once).Do. Per-run state lives in the Sim, so a
// package-level Once is fresh in every simulated run.
func OnceDo(label string, once *sync.Once, f func()) {
	s := S
	if s == nil {
		once.Do(f)
		return
	}
	t := s.cur
	if t == nil {
		// Oracle context: run at most once, without scheduling.
		st := s.once[once]
		if st == nil {
			st = &onceState{}
			s.once[once] = st
		}
		if st.state == 0 {
			st.state = 1
			defer func() { st.state = 2 }()
			f()
		}
		return
	}
	Yield(label)
	st := s.once[once]
	if st == nil {
		st = &onceState{}
		s.once[once] = st
	}
	switch st.state {
	case 2:
		return
	case 1:
		s.block(t, label+" (wait)", func() bool { return st.state == 2 })
		return
	}
	st.state = 1
	defer func() { st.state = 2 }()
	f()
}

// OnceDone reports whether the once has completed in this run.
func (s *Sim) OnceDone(once *sync.Once) bool {
	st := s.once[once]
	return st != nil && st.state == 2
}

func WGAdd(label string, wg *sync.WaitGroup, n int) {
	s := S
	if s == nil {
		wg.Add(n)
		return
	}
	s.wg[wg] += n
}

func WGDone(label string, wg *sync.WaitGroup) {
	s := S
	if s == nil {
		wg.Done()
		return
	}
	s.wg[wg]--
}

func WGWait(label string, wg *sync.WaitGroup) {
	s := S
	if s == nil {
		wg.Wait()
		return
	}
	t := s.cur
	if t == nil {
		return
	}
	Yield(label)
	s.block(t, label+" (wait)", func() bool { return s.wg[wg] <= 0 })
}

type groupState struct {
	n   int
	err error
}

// Grouper is the part of errgroup.Group used without simulation.
type Grouper interface {
	Go(func() error)
	Wait() error
}

// GroupGo replaces (*errgroup.Group).Go: the function becomes a task of the
// calling process.
func GroupGo(label string, g Grouper, f func() error) {
	s := S
	if s == nil || s.cur == nil {
		g.Go(f)
		return
	}
	st := s.groups[g]
	if st == nil {
		st = &groupState{}
		s.groups[g] = st
	}
	st.n++
	s.Spawn(s.cur.Proc, "group", func() {
		defer func() { st.n-- }()
		if err := f(); err != nil && st.err == nil {
			st.err = err
		}
	})
}

func GroupWait(label string, g Grouper) error {
	s := S
	if s == nil || s.cur == nil {
		return g.Wait()
	}
	st := s.groups[g]
	if st == nil {
		return nil
	}
	t := s.cur
	Yield(label)
	s.block(t, label+" (wait)", func() bool { return st.n == 0 })
	return st.err
}

// Go replaces a go statement: the function becomes a task of the calling
// process.
func Go(label string, f func()) {
	s := S
	if s == nil || s.cur == nil {
		go f()
		return
	}
	s.Spawn(s.cur.Proc, "go@"+label, f)
}
