// Package simrt is the deterministic-simulation runtime that is linked into
// the generated (instrumented) build of golang/telemetry.
//
// It owns: the cooperative scheduler (exactly one task runs at a time; who
// runs next is decided by the choice tape), the choice tape itself, the
// simulated clock and timers, simulated mutex / once / wait-group, the
// file-system shim with fault injection, the HTTP transport, the simulated
// process table and the event log.
//
// With no simulation attached (S == nil) every entry point behaves exactly
// like the standard-library call it replaces.
package simrt

// Rand is a splitmix64-seeded xoshiro256** generator. It is implemented here so
// that the stream does not depend on the Go release.
type Rand struct{ s [4]uint64 }

func splitmix(x *uint64) uint64 {
	*x += 0x9e3779b97f4a7c15
	z := *x
	z = (z ^ (z >> 30)) * 0xbf58476d1ce4e5b9
	z = (z ^ (z >> 27)) * 0x94d049bb133111eb
	return z ^ (z >> 31)
}

func NewRand(seed uint64) *Rand {
	r := &Rand{}
	x := seed
	for i := range r.s {
		r.s[i] = splitmix(&x)
	}
	return r
}

func rotl(x uint64, k uint) uint64 { return (x << k) | (x >> (64 - k)) }

func (r *Rand) Uint64() uint64 {
	s := &r.s
	res := rotl(s[1]*5, 7) * 9
	t := s[1] << 17
	s[2] ^= s[0]
	s[3] ^= s[1]
	s[1] ^= s[2]
	s[0] ^= s[3]
	s[2] ^= t
	s[3] = rotl(s[3], 45)
	return res
}

// Intn returns a uniform value in [0,n). n <= 0 yields 0.
func (r *Rand) Intn(n int) int {
	if n <= 1 {
		return 0
	}
	return int(r.Uint64() % uint64(n))
}

// Tape is the sequence of every choice made in one run. In generation mode
// choices are produced by the PRNG (possibly through a non-uniform generator)
// and recorded; in replay mode they are read back, and past the end of the tape
// every choice is 0. Generators are written so that 0 is the benign choice.
type Tape struct {
	Replay bool
	Vals   []uint32
	pos    int
	Rng    *Rand
}

func NewGenTape(seed uint64) *Tape { return &Tape{Rng: NewRand(seed)} }

func NewReplayTape(vals []uint32) *Tape {
	return &Tape{Replay: true, Vals: vals, Rng: NewRand(0)}
}

// Pos reports how many choices have been consumed.
func (t *Tape) Pos() int { return t.pos }

// DrawG draws a choice in [0,n) using gen in generation mode.
func (t *Tape) DrawG(n int, gen func(r *Rand) int) int {
	if n <= 1 {
		// Still consumes a slot so that tapes stay aligned when n varies with
		// state; a single-option choice is recorded as 0.
		if t.Replay {
			t.pos++
			return 0
		}
		t.Vals = append(t.Vals, 0)
		t.pos++
		return 0
	}
	if t.Replay {
		var v uint32
		if t.pos < len(t.Vals) {
			v = t.Vals[t.pos]
		}
		t.pos++
		return int(v % uint32(n))
	}
	v := gen(t.Rng)
	if v < 0 || v >= n {
		v = 0
	}
	t.Vals = append(t.Vals, uint32(v))
	t.pos++
	return v
}

// Draw draws uniformly in [0,n).
func (t *Tape) Draw(n int) int {
	return t.DrawG(n, func(r *Rand) int { return r.Intn(n) })
}

// Bool is true with probability num/den in generation mode; false is the
// benign (0) choice.
func (t *Tape) Bool(num, den int) bool {
	return t.DrawG(2, func(r *Rand) int {
		if r.Intn(den) < num {
			return 1
		}
		return 0
	}) == 1
}

// Range draws uniformly in [lo,hi] (inclusive); lo is the benign choice.
func (t *Tape) Range(lo, hi int) int {
	if hi <= lo {
		t.Draw(1)
		return lo
	}
	return lo + t.Draw(hi-lo+1)
}

// Biased draws in [0,n) with 0 having probability num/den and the rest uniform.
func (t *Tape) Biased(n, num, den int) int {
	return t.DrawG(n, func(r *Rand) int {
		if n <= 1 || r.Intn(den) < num {
			return 0
		}
		return 1 + r.Intn(n-1)
	})
}

// Fixed records v as a choice in generation mode (used for plan slots that the
// explorer fills in explicitly); in replay mode it reads the tape like Draw.
func (t *Tape) Fixed(n, v int) int {
	return t.DrawG(n, func(*Rand) int { return v })
}
