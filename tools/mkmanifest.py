#!/usr/bin/env python3
# Regenerates /verif/MANIFEST.json from the table below.
import json, subprocess
props=[json.loads(l) for l in open('/verif/properties.jsonl')]
T="deterministic simulation: tape-driven scheduler over generated yield points, "
claimed={
 "C03": dict(level="exploration", design="5 (C03), 4, 10",
   text="Seeded schedule search at the granularity of single atomic operations, lock acquisitions and Counter.ptr accesses over the real internal/counter code (instrumented build generated from the working tree): 2..4 threads, shared/private/alias/long-name/stack counters, concurrent first open, page growth (remap) and clock-driven rotation incl. the rotation timer; a saturation family with amounts at the 2^33 / 2^64 limits. Checked after every scheduler step: no panic or memory fault (closed mappings are poisoned so a stale cell pointer faults deterministically), persisted+pending never exceeds increments begun (128-bit arithmetic), every snapshot decodes under an independent v1 decoder and values never decrease; at quiescence exact conservation and nothing pending once a file is open; deadlock and non-terminating solo runs are reported as waits-forever. Sampling, not enumeration.",
   note="Trusted: the simulator (simrt), the instrumenter's placement of scheduling points (code between two points is atomic; sequentially consistent memory), refformat. One genuine defect is quarantined by its window (munmap-with-holders, see known_findings.json): schedules inside that window are not explored. Other genuine C03 defects found by this check were repaired by fix: commits.",
   tech=T+"conservation oracle per step, poisoned unmap, ddmin-minimised replay"),
 "C04": dict(level="exploration", design="5 (C04)",
   text="2..4 simulated processes, each with its own counter.file object and its own mmap of one shared file (real MAP_SHARED coherence on tmpfs), 1..2 threads each, names with same-name / same-bucket / page-crossing / page-end cases; every interleaving point as in C03; 0..3 kills (a killed process is never scheduled again, nothing unwound) placed at random steps or right after the victim's k-th limit CAS, head CAS, record write, extension write or mmap. After every step the file must decode under the independent strict decoder (one record per name, chains acyclic, no overlap, page tails free, limit monotone and within the file), values bounded by increments begun and monotone; at quiescence survivors have no error state, nothing pending, and each counter lies between the survivors' completed increments and that plus what killed processes had begun.",
   note="Trusted: simrt, refformat, the placement of scheduling points. Crash = SIGKILL of a process (page cache survives), not power loss. Known finding munmap-with-holders (a C03 defect that is also reachable here) is quarantined by its window.",
   tech=T+"multi-process kill injection, strict independent decode after every step"),
 "C05": dict(level="fault_enumeration", design="5 (C05)",
   text="Counter side of the property: for each seeded workload the fault-free execution is recorded, then re-executed with every single file-system/mmap call failing (7 errnos + short write; quick tier: every call with a third of the errnos and all short writes), with persistent states (read-only, permission denied, mmap always failing, directory found as a regular file, files deleted while in use) and with pairs (all pairs for small workloads in the thorough tier). Oracle: no panic, no memory fault, every call returns within the step budget (solo-run confirmation), and per counter persisted+pending equals the amounts added (failures only keep counts in memory). Second family: files damaged at rest (random bytes, truncation classes, header length, limit, bucket heads, name lengths, links incl. self-loops, longer cycles, cross-chain links; plain and ditto-compressed stack names) are opened and incremented: totality only.",
   note="Upload side: a third family runs one upload.Run in the machine world under the same single/pairwise/persistent fault enumeration plus server failures and damaged count files (returns, no escaping panic, step budget, no inflated value in any report). An absurd recorded limit (library creates a sparse file of that size) is not generated for the library consumer. Known finding munmap-with-holders quarantined. Trusted: simrt shim (a failed call is not performed), refformat.",
   tech="deterministic simulation with single/pairwise fault enumeration over recorded call sequences, at-rest corruption, loop budgets via generated ticks"),
 "C06": dict(level="exploration", design="5 (C06), 6",
   text="Only the clauses that meet the simulated schedule and disk: Parse is run on the live file's bytes after every scheduler step of multi-process histories with kills and must return; whenever the independent decoder accepts the snapshot Parse must yield the same metadata and name/value pairs with stack names expanded (independent ditto expansion). Parse on structurally damaged files must return an error or a result within a loop budget (the parser's loops carry generated ticks), and agree with the independent decoder when the damage left the file well-formed.",
   note="Totality over all byte strings (random / coverage-guided inputs) is a statement about a pure function and is not decided by this family; see DESIGN.md section 6. Trusted: refformat, refstack.",
   tech=T+"differential oracle against an independent decoder on every intermediate snapshot; structured at-rest damage"),
 "C09": dict(level="exploration", design="5 (C09)",
   text="Counter side: a rotating process on a simulated calendar (1990..2060, biased to day/month/year/leap boundaries and to the last seconds of a day), week-end setting valid / missing / empty / garbage, the clock jumping to end-1ns, end, end+1ns, hours or weeks later while increments are in flight, the real rotate re-arming itself through the simulated AfterFunc. Every created file's TimeBegin, TimeEnd and name are checked against independent civil-date arithmetic using the clock value the creating task actually read; once a rotation has completed old files may only grow by increments that were already in flight; after the clock stops and timers fire the process records into the file whose span covers the present.",
   note="Uploader side: a second family (machine world) places the run's start time at end-1ns / end / end+1ns / later relative to a file's recorded end and applies the C07 report oracle with that start time: a file is consumed iff its end is before the start time and reported under the week named by its end date. Trusted: simrt clock, refcal. Crashes/lost counts in this world are reported by C03/C05, not here.",
   tech=T+"discrete-event clock with simulated AfterFunc, calendar oracle from independent day-number arithmetic"),
 "C10": dict(level="exploration", design="5 (C10)",
   text="Histories of create / increment / close / reopen (restart) / extend by 1..3 concurrent writer processes over names of 1..4096 bytes of arbitrary content and build metadata up to and beyond the 512-byte cap, optionally starting from a file produced by the independent encoder (different placement policy, tail insertion). Every intermediate snapshot is strictly decoded (prefix, header length, 512 buckets, FNV-1a bucket of every linked name, 32-byte alignment, no overlap, page tails free, limit monotone and within the file); the final content equals the model; the library's reader agrees with the independent decoder; (previous limit mod page, name length) placement cases reached are counted.",
   note="Trusted: refformat (written from the layout comment), simrt. Placement pairs are sampled, not enumerated over the full page period.",
   tech=T+"independent codec as oracle in both directions (library-written files decoded, encoder-written files opened by the library)"),
 "C07": dict(level="exploration", design="5 (C07), 10.5",
   text="Machine-world histories over simulated weeks: counter files of several programs/versions/platforms (expired, active, empty, unreadable), then 1..4 concurrent real upload.Run calls (mode on or local) interleaved at file-system/HTTP-call granularity with tape-permuted map iteration order and repeated rounds. After each round: for every week that had no report, whose files all ended before the start time and are readable and of which one is non-empty, exactly one local report whose per-build counters and stacks equal the reference aggregation; reports that existed keep their bytes; from the call log: a counter file is removed only while a report for its week exists, and active or unreadable files receive no mutating call and hash identically afterwards.",
   note="Trusted: simrt shim and scheduler, refformat/refreport/refstack. configstore.Download is a stub; counter files come from the independent encoder. Two genuine defects found by this world were repaired by fix: commits (report visible before written; local report written after the uploadable one).",
   tech=T+"file-system-call-granularity interleaving of real uploaders, reference aggregation model, call-log oracle"),
 "C08": dict(level="exploration", design="5 (C08)",
   text="The same world in mode on with 2..4 concurrent uploaders per round, kills after any file-system/HTTP call (nothing unwound, lock files stay) and per-request server fates (200, 4xx, 5xx, no answer, processed-but-answer-lost, duplicate delivery). Safety over the server-side history: every body the server accepted for a week is byte-identical; no request for a week after it was acknowledged and recorded as uploaded; a task that got 5xx/no answer makes no further mutating call on the report, one that got 4xx does not mark it uploaded. Liveness (family without kills): once the server answers 200, three more sequential runs leave no sendable report behind and each delivered week was acknowledged to a client exactly once.",
   note="The server stub is adversarial about availability, not validity (its verdict on a given body is stable); with an inconsistent server a stale read-before-lock buffer could be accepted after its report was discarded and rebuilt - noted in DESIGN.md. Liveness is not claimed with kills, as the statement says.",
   tech=T+"kill and server-fate injection, server-side history oracle, bounded liveness after faults stop"),
 "C01": dict(level="exploration", design="5 (C01)",
   text="Every request body seen by the simulated transport is compared field by field with the reference filter applied to the reference aggregation of the week's files under the configuration version fetched by the run that built that report and the X the body carries (X is forced through crypto/rand.Reader to dyadic values equal and adjacent to the configured rates, so the X==Rate boundary is reached): approved program builds only, counters that are expansions of listed counters with rate >= X, stacks by first line, equal values, every approved local counter present, no undocumented field, URL = endpoint/week. Configurations change version between rounds and reports are left over to later runs by server outcomes.",
   note="Generated configs avoid duplicate names with different rates and malformed bucket syntax. Trusted: refcfg/refreport (written from the field comments and the property), simrt transport.",
   tech=T+"differential oracle on every outgoing request against an independent config/aggregation model"),
 "C02": dict(level="exploration", design="5 (C02)",
   text="Between uploader rounds the mode changes through SetModeAsOf (back-dated opt-in dates), arbitrary mode-file bytes and invalid modes; files, opt-in date and run time sit on a simulated calendar with 21-day and opt-in boundaries. Per request: independently parsed mode is exactly on, week not in the future and after the opt-in date. Per uploadable report: built in mode on, not older than 21 days, X not above a positive sample rate, all data strictly after the opt-in date. Rounds in mode off: no mutating call on, and no change to, any counter file or report. Other content behaves as local. SetModeAsOf/Mode round-trip; invalid modes rejected with the bytes unchanged.",
   note="Uploader side; the counter API's off-mode behaviour (Open does nothing) is not driven here. Unreadable mode file is modelled by unparsable content / a directory, not permissions (sandbox runs as root).",
   tech=T+"simulated calendar and mode histories, independent mode-file parser, directory snapshots and call log"),
 "C19": dict(level="exploration", design="5 (C19)",
   text="The real runOn/runLocal/runOff/runClean are run as simulated user processes between uploader rounds over directories populated by the simulation plus foreign files with names matching exactly, nearly or not at all the data-file patterns, and sub-directories. After clean: exactly the counter files and reports (local and uploaded) are gone, everything else hashes the same. A mode command leaves the file byte-identical when the parsed mode already equals the request, otherwise the file is `<mode> <simulated UTC date>` and the library reads that back.",
   note="Input-heavy property: claimed for the clauses that meet the simulated history, clock and disk. Sub-directories carry no data suffix.",
   tech=T+"user commands as simulated processes inside machine histories, directory model"),
 "C16": dict(level="exploration", design="5 (C16)",
   text="2..8 starter processes in a simulated process table (environment, pid, exec, exit) call the real Start concurrently over the decision table (child marker unset/1/2/junk x crash flag x upload flag x mode on/local/off/missing/garbage x token absent/fresh/stale incl. exactly 24 h), interleaved at file-system-call granularity (stat token, remove, exclusive create), some starters hours apart; spawned children run the real child path (marker rewrite, counter.Open, upload.Run) and the config download spawns a descendant that calls Start again. At every spawn: mode not off, spawner not a telemetry child or a descendant of one, the upload flag only with a token acquired in this call and requested, otherwise crash reporting requested. Mode off: no mutating call and an unchanged directory. With no stale token and all starters within the period: at most one acquisition (none if a fresh token exists).",
   note="Simulated processes share one address space (internal/counter's default file is shared). crashmonitor.Parent/Child and configstore.Download are stubs. The statement is only-if: not checked that a child is launched whenever permitted. One genuine defect found here was repaired (uploader touched the directory in mode off).",
   tech=T+"simulated process table (env, exec, exit), token race at file-system-call granularity, decision-table oracle at every spawn"),
 "C11": dict(level="exploration", design="5 (C11)",
   text="Server family: a generated configuration and counter files (platforms, versions, near-miss names), one real upload.Run whose every request the simulated transport hands to the real upload handler configured with the same configuration (must answer 200); each produced body is then re-delivered with one field changed to a near-miss (program, version, Go version, GOOS, GOARCH, counter, stack first line) and the handler must answer 4xx exactly when the reference configuration semantics put the changed report outside the configuration. Viewer family: the viewer's per-item active flags and summary text for generated files must agree with the same reference semantics.",
   note="The three deciders are each compared with refcfg (documented semantics): uploader (C01 oracle), server and viewer (here). Two genuine disagreements found were repaired by fix: commits (uploader ignored GOOS/GOARCH; viewer matched stacks by full name).",
   tech=T+"real uploader wired to the real server handler through a corrupting transport; differential check against the reference config semantics"),
 "C12": dict(level="exploration", design="5 (C12), 6",
   text="Request streams to the real upload handler behind its real middleware chain and file-system bucket: all methods; valid approved reports (incl. ~100 KiB and hostile X), reports with exactly one invalid field, near-miss names, arbitrary bytes, wrong-shape JSON, truncated and oversize bodies, duplicates; bodies delivered through readers with short reads, mid-stream errors and early ends. After every request: answer class (200 only for valid approved POSTs, otherwise 4xx, never 5xx), the recursive listing of the storage tree equals the map-store model, the stored object decodes to the report sent, nothing outside the bucket changes.",
   note="Input-heavy property; claimed for the clauses that meet the simulated transport/body stream and the request history. Trailing bytes after a complete JSON value are not judged. Clean URL path assumed.",
   tech="seeded request-stream simulation with body-stream fault injection against a map object store and reference config semantics"),
 "C13": dict(level="exploration", design="5 (C13)",
   text="Per simulated day a set of stored reports (0..40, tiny to just under the 100 KiB upload limit, repeated X across days), the real handleMerge per day and handleChart for single days and ranges, with bucket listing order and Go map iteration order (inside group/partition, instrumented build) permuted by the tape, each chart computed three times. Checked: exactly one merged record per stored object decoding to it; NumReports; every partition value equals the reference count of distinct report IDs carrying that program's bucket; byte-identical output across permutations; a range with a never-merged day answers 404 and writes no chart.",
   note="A genuine defect found here (merged lines over 64 KiB silently end the day's list) was repaired by a fix: commit. Config Go versions are release versions.",
   tech="tape-permuted listing and map iteration order over real merge/chart handlers, reference distinct-ID counting"),
 "C18": dict(level="exploration", design="5 (C18)",
   text="Histories of write / overwrite / read / prefix-list on the real FSBucket against a map object store over nested ordinary names and every object-name shape the upload, merge and chart services construct (week/%g.json incl. extreme floats, date.json, start_end.json); round-trip, not-exist for absent objects, exact prefix listing, containment under the bucket directory, sibling bucket untouched.",
   note="Light, input-heavy property claimed for its history part. Names that are a path prefix of another stored name are not generated (a file system cannot hold them).",
   tech="seeded operation histories against a map model"),
}
checks=[]
for pid,c in sorted(claimed.items()):
    checks.append({
      "property_id":pid,
      "quick_cmd":f"./check {pid} quick",
      "thorough_cmd":f"./check {pid} thorough",
      "evidence_file":f"/verif/evidence/{pid}.json",
      "replay_cmd_template":f"bin/vcheck {pid} --replay {{path}}",
      "engine":"vcheck",
      "level_claimed":{"category":c["level"],"text":c["text"],"design_ref":c["design"]},
      "level_note":c["note"],
      "technique":c["tech"],
    })
reasons={
 "C14":"pure function of the crash text: no schedule, clock, fault or interleaving in the statement; deterministic simulation has nothing to decide (DESIGN.md section 6)",
 "C15":"EncodeStack/DecodeStack are pure functions of a PC slice / a string; the statement quantifies over inputs and programs only (DESIGN.md section 6)",
 "C17":"chart-config parsing and upload-config generation are pure functions of text and lists (DESIGN.md section 6)",
}
na=[]
for p in props:
    if p['id'] in claimed: continue
    na.append({"property_id":p['id'],"reason":reasons.get(p['id'],"harness not finished yet in this round: not claimed until its check runs (DESIGN.md section 9)")})
fixes=subprocess.check_output("git -C /repo log --format='%h %s' | grep ' fix:' || true",shell=True,text=True).strip().split('\n')
m={
 "version":1,
 "setup_cmd":"./setup.sh",
 "hooks":{"guard":"verif","enable":"no hooks in /repo: the instrumented build is generated from the working tree by cmd/simgen and reaches the compiler through `go build -overlay` (scratch directory, removed after each check)","baseline_off_cmd":"cd /repo && GOFLAGS=-mod=mod go test -vet=off -count=1 ./... && cd godev && GOFLAGS=-mod=mod go test -vet=off -count=1 ./...","source_commits":[],"add_only":True},
 "engines":[{"name":"vcheck","path":"/verif/cmd/vcheck","serves_properties":sorted(claimed.keys()),"kind_free_text":"deterministic simulation with fault injection: simgen (AST instrumenter) + simrt (scheduler, tape, clock, fs shim, transport, process table) + per-world harnesses + reference models"}],
 "checks":checks,
 "not_applicable":na,
 "notes":"fix: commits in /repo: "+"; ".join(fixes)+". Known findings: /verif/known_findings.json."
}
json.dump(m,open('/verif/MANIFEST.json','w'),indent=1)
print("claimed:",sorted(claimed.keys()))
