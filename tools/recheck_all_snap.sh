#!/bin/bash
# usage: tools/recheck_all_snap.sh <snapshot-of-verif> [parallel-slots]
# Re-runs every stored seeded change against the checks of a snapshot of /verif (quick tier of the properties
# recorded for it), each in a scratch worktree of /repo's HEAD, several at a time; rewrites the "checks" of
# seeded/<id>/results.json and meta.json. /repo and /verif themselves are not touched meanwhile.
export GOFLAGS=-mod=mod GOPROXY=off GOSUMDB=off GOTOOLCHAIN=local
snap=$1; slots=${2:-3}
one() {
  id=$1; slot=$2; snap=$3
  out=/verif/seeded/$id; wt=/tmp/rk-slot$slot
  [ -f $out/patch.diff ] || return
  props=$(python3 -c "import json;print(' '.join(c['property'] for c in json.load(open('$out/results.json'))['checks']))" 2>/dev/null)
  [ -n "$props" ] || { echo "$id: no recorded checks"; return; }
  ( cd $wt && git checkout -q -- . && git clean -qfd )
  git -C $wt apply $out/patch.diff 2>/dev/null || { echo "$id: PATCH DOES NOT APPLY"; return; }
  results=""
  for p in $props; do
    ( cd $snap && VERIF_SCRATCH=/dev/shm VERIF_DIR=$snap VERIF_REPO=$wt bin/vcheck $p --tier quick --workers 5 ) > $out/check_$p.log 2>&1; rc=$?
    inv=$(grep -m1 'invariant:' $out/check_$p.log | sed 's/ *invariant: //')
    echo "$id check $p: exit $rc $inv"
    results="$results{\"property\":\"$p\",\"exit\":$rc,\"invariant\":\"$inv\"},"
    rp=$(grep -m1 '^VIOLATION' $out/check_$p.log | sed 's/.*replay=//')
    case "$rp" in $snap/replays/fixed/*|$snap/replays/known/*) ;; $snap/replays/*) [ -f "$rp" ] && mv "$rp" $out/replay_$p.json;; esac
  done
  ( cd $wt && git checkout -q -- . && git clean -qfd )
  python3 - <<PY
import json
p='$out/results.json'
r=json.load(open(p)); r['checks']=json.loads('[${results%,}]'); json.dump(r,open(p,'w'))
try:
    m='$out/meta.json'; d=json.load(open(m)); d['checks_run_against_it_last']=r['checks']; json.dump(d,open(m,'w'),indent=1)
except Exception as e: print('$id meta',e)
PY
}
export -f one
for i in $(seq 1 $slots); do git -C /repo worktree remove --force /tmp/rk-slot$i 2>/dev/null; git -C /repo worktree add -q --detach /tmp/rk-slot$i HEAD; done
ls /verif/seeded | awk -v n=$slots '{print $1, (NR%n)+1}' > /tmp/rk-jobs.txt
for i in $(seq 1 $slots); do
  ( awk -v s=$i '$2==s{print $1}' /tmp/rk-jobs.txt | while read id; do one $id $i $snap; done ) &
done
wait
for i in $(seq 1 $slots); do git -C /repo worktree remove --force /tmp/rk-slot$i; done
echo ALLDONE
