#!/bin/bash
# usage: tools/recheck_mutant.sh <id> [<prop>...]
# Applies /verif/seeded/<id>/patch.diff to /repo, runs the quick checks of the given properties (default: the
# properties recorded in results.json), undoes the change, and rewrites the "checks" list of results.json.
export GOFLAGS=-mod=mod GOPROXY=off GOSUMDB=off GOTOOLCHAIN=local
id=$1; shift
out=/verif/seeded/$id
props="$*"
[ -n "$props" ] || props=$(python3 -c "import json;print(' '.join(c['property'] for c in json.load(open('$out/results.json'))['checks']))")
cd /repo && git status --porcelain | grep -q . && { echo "/repo not clean"; exit 2; }
git -C /repo apply $out/patch.diff || { echo "patch does not apply: $id"; exit 2; }
results=""
for p in $props; do
  ( cd /verif && ./check $p quick ) > $out/check_$p.log 2>&1; rc=$?
  inv=$(grep -m1 'invariant:' $out/check_$p.log | sed 's/ *invariant: //')
  echo "$id check $p: exit $rc $inv"
  results="$results{\"property\":\"$p\",\"exit\":$rc,\"invariant\":\"$inv\"},"
  rp=$(grep '^VIOLATION' $out/check_$p.log | sed 's/.*replay=//' | grep -v '/replays/fixed/\|/replays/known/' | head -1)
  [ -n "$rp" ] && [ -f "$rp" ] && mv "$rp" $out/replay_$p.json
done
git -C /repo checkout -- .
python3 - <<PY
import json
p='$out/results.json'
r=json.load(open(p)); r['checks']=json.loads('[${results%,}]'); json.dump(r,open(p,'w'))
m='$out/meta.json'
try:
    d=json.load(open(m)); d['checks_run_against_it_last']=r['checks']; json.dump(d,open(m,'w'),indent=1)
except Exception as e: print('meta',e)
PY
