#!/bin/bash
# Regenerates every stored replay (known findings with the quarantine off on /repo; fixed findings on a scratch
# worktree with that one fix reverted). Run after any change to a scenario's draw order.
export GOFLAGS=-mod=mod GOPROXY=off GOSUMDB=off GOTOOLCHAIN=local
cd /verif
go build -o bin/vcheck ./cmd/vcheck
for p in C03 C04 C05; do
  rm -rf replays/$p
  ./bin/vcheck $p --noquarantine --runs 60000 2>&1 | grep -A1 "^VIOLATION" | cut -c1-160
  f=$(ls replays/$p/*.json 2>/dev/null | head -1)
  if [ -n "$f" ] && grep -q '"invariant": "memory-fault"' $f; then mv $f replays/known/$p-munmap-with-holders.json; else echo "known finding for $p not regenerated"; fi
  rm -rf replays/$p
done
# C11: the report larger than the server's limit (window oversize-report)
rm -rf replays/C11
./bin/vcheck C11 --noquarantine --runs 4000 2>&1 | grep -A1 "^VIOLATION" | cut -c1-160
f=$(ls replays/C11/*.json 2>/dev/null | head -1)
if [ -n "$f" ] && grep -q 'request body too large' $f; then mv $f replays/known/C11-report-larger-than-server-limit.json; else echo "known finding for C11 not regenerated"; fi
rm -rf replays/C11
# C09: suspended past the end (window suspend-resume)
rm -rf replays/C09
./bin/vcheck C09 --noquarantine --runs 4000 2>&1 | grep -A1 "^VIOLATION" | cut -c1-160
f=$(ls replays/C09/*.json 2>/dev/null | head -1)
if [ -n "$f" ] && grep -q 'rotation-after-suspend' $f; then mv $f replays/known/C09-suspended-past-the-end.json; else echo "known finding for C09 not regenerated"; fi
rm -rf replays/C09
python3 - <<'PY'
import json,subprocess
k=json.load(open('/verif/known_findings.json'))
extra={"C04-dupcheck-beyond-mapping":["--runs","300000","--budget","6m"],"C07-partial-second-report":["--runs","900000","--budget","12m","--seed","3"],
       "C03-lock-over-readers":["--runs","100000"],"C03-used-before-registered":["--runs","100000"]}
for f in k['findings']:
    if f['status']!='fixed': continue
    args=extra.get(f['id'],["--runs","40000"])
    print("==",f['id'],flush=True)
    subprocess.call(["/verif/tools/regen_fixed.sh",f.get('regen_revert',f['commit']),f['property'],f['id']]+args)
PY
