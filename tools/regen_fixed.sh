#!/bin/bash
# usage: tools/regen_fixed.sh <commit> <prop> <name> [vcheck args...]
# Reverts one fix: commit in a scratch worktree, lets the property's check find and minimise the defect there,
# stores the replay as replays/fixed/<name>.json and confirms that it is clean on /repo.
export GOFLAGS=-mod=mod GOPROXY=off GOSUMDB=off GOTOOLCHAIN=local
commit=$1; prop=$2; name=$3; shift 3
wt=/tmp/wt-fix-$name
git -C /repo worktree remove --force $wt 2>/dev/null
git -C /repo worktree add -q $wt HEAD || exit 2
# <commit> may be a comma separated list, reverted in the order given (a later repair on the same lines first)
for cm in ${commit//,/ }; do
  ( cd $wt && git revert -n $cm >/dev/null 2>&1 ) || { echo "revert of $cm conflicts"; git -C /repo worktree remove --force $wt; exit 2; }
done
cd /verif; rm -rf replays/$prop
VERIF_REPO=$wt ./bin/vcheck $prop "$@" 2>&1 | grep -A2 '^VIOLATION' | cut -c1-220
f=$(ls replays/$prop/*.json 2>/dev/null | head -1)
git -C /repo worktree remove --force $wt
if [ -z "$f" ]; then echo "NOT REPRODUCED: $name"; exit 1; fi
mkdir -p replays/fixed; mv $f replays/fixed/$name.json; rm -rf replays/$prop
./bin/vcheck $prop --replay replays/fixed/$name.json 2>&1 | tail -1 | cut -c1-160
