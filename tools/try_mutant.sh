#!/bin/bash
# usage: tools/try_mutant.sh <id> <breaks-prop> [<other-prop-to-run>...]
# Confirms a seeded change produced in /tmp/wt-<id> (compiles; the existing suite passes with it; the demonstration
# fails with it and passes without it), stores it under /verif/seeded/<id>/, applies it to /repo, runs the quick
# checks of the given properties against it, and undoes it straight afterwards.
set -u
export GOFLAGS=-mod=mod GOPROXY=off GOSUMDB=off GOTOOLCHAIN=local
id=$1; shift
props="$*"
wt=/tmp/wt-$id
out=/verif/seeded/$id
mkdir -p $out
cd $wt || exit 2
rm -f MUTANT.diff
demos=$(git status --porcelain | grep '^??' | awk '{print $2}' | grep '_test.go$')
git diff > $out/patch.diff
[ -s $out/patch.diff ] || { echo "no source change in $wt"; exit 2; }
rm -rf $out/demo; for f in $demos; do mkdir -p $out/demo/$(dirname $f); cp $f $out/demo/$f; done
cp -f NOTES.txt $out/notes.txt 2>/dev/null; cp -f DEMO.txt $out/demo.txt 2>/dev/null
# 1. suite with the change, demonstration set aside
mkdir -p /tmp/demo-aside-$id; for f in $demos; do mkdir -p /tmp/demo-aside-$id/$(dirname $f); mv $f /tmp/demo-aside-$id/$f; done
suite=pass
( go build ./... && go vet ./... >/dev/null 2>&1; go test -vet=off -count=1 ./... ) > $out/suite_root.log 2>&1 || suite=FAIL
( cd godev && go build ./... && go test -vet=off -count=1 ./... ) > $out/suite_godev.log 2>&1 || suite=FAIL
for f in $demos; do mv /tmp/demo-aside-$id/$f $f; done; rm -rf /tmp/demo-aside-$id
echo "suite with change: $suite"
# 2. demonstration with and without the change
demo_with=unknown; demo_without=unknown
for f in $demos; do
  dir=$(dirname $f); mod=.; case $f in godev/*) mod=godev; dir=${dir#godev/};; esac
  tests=$(grep -o '^func Test[A-Za-z0-9_]*' $f | sed 's/func //' | paste -sd'|')
  ( cd $mod && go test -vet=off -count=1 -run "^($tests)\$" ./$dir ) > $out/demo_with_change.log 2>&1 && demo_with=pass || demo_with=FAIL
  # (no git stash: the stash is shared by all worktrees of /repo)
  git apply -R $out/patch.diff
  ( cd $mod && go test -vet=off -count=1 -run "^($tests)\$" ./$dir ) > $out/demo_without_change.log 2>&1 && demo_without=pass || demo_without=FAIL
  git apply $out/patch.diff
done
echo "demo with change: $demo_with   without: $demo_without"
# 3. our checks against it
cd /repo && git status --porcelain | grep -q . && { echo "/repo not clean"; exit 2; }
git -C /repo apply $out/patch.diff || { echo "patch does not apply to /repo"; exit 2; }
results=""
for p in $props; do
  ( cd /verif && ./check $p quick ) > $out/check_$p.log 2>&1; rc=$?
  line=$(grep -m1 '^VIOLATION' $out/check_$p.log | cut -c1-160)
  inv=$(grep -m1 'invariant:' $out/check_$p.log | sed 's/ *invariant: //')
  echo "check $p: exit $rc $inv"
  results="$results{\"property\":\"$p\",\"exit\":$rc,\"invariant\":\"$inv\"},"
  # keep the replay file out of the way
  rp=$(grep -m1 '^VIOLATION' $out/check_$p.log | sed 's/.*replay=//')
  case "$rp" in
    /verif/replays/fixed/*|/verif/replays/known/*) cp "$rp" $out/replay_$p.json;;   # a stored finding came back: keep the stored file in place
    /verif/replays/*) [ -f "$rp" ] && mv "$rp" $out/replay_$p.json;;
  esac
done
git -C /repo checkout -- .
git -C /repo status --porcelain | grep -q . && echo "WARNING: /repo not clean after undo"
cat > $out/results.json <<EOT
{"id":"$id","suite_with_change":"$suite","demo_with_change":"$demo_with","demo_without_change":"$demo_without","checks":[${results%,}]}
EOT
