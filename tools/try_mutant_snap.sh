#!/bin/bash
# usage: tools/try_mutant_snap.sh <snapshot-of-verif> <id> <breaks-prop> [<other-prop>...]
# Like try_mutant.sh, but leaves /repo and /verif alone while it runs: the checks are those of a snapshot of
# /verif (a git worktree of its HEAD, built once) and the repository under test is the agent's own scratch
# worktree /tmp/wt-<id>, moved to /repo's HEAD with the change applied and the demonstration set aside.
# Results are stored under /verif/seeded/<id>/ as usual.
set -u
export GOFLAGS=-mod=mod GOPROXY=off GOSUMDB=off GOTOOLCHAIN=local
snap=$1; id=$2; shift 2
props="$*"
wt=/tmp/wt-$id
out=/verif/seeded/$id
mkdir -p $out
cd $wt || exit 2
rm -f MUTANT.diff
demos=$(git status --porcelain | grep '^??' | awk '{print $2}' | grep '_test.go$')
git diff > $out/patch.diff
[ -s $out/patch.diff ] || { echo "no source change in $wt"; exit 2; }
rm -rf $out/demo; for f in $demos; do mkdir -p $out/demo/$(dirname $f); cp $f $out/demo/$f; done
cp -f NOTES.txt $out/notes.txt 2>/dev/null; cp -f DEMO.txt $out/demo.txt 2>/dev/null
# move the worktree to /repo's HEAD (repairs made since the agent started), change re-applied
head=$(git -C /repo rev-parse HEAD)
if [ "$(git rev-parse HEAD)" != "$head" ]; then
  git apply -R $out/patch.diff && git checkout -q --detach $head && git apply $out/patch.diff || { echo "$id: change does not apply to /repo's HEAD"; exit 2; }
  git diff > $out/patch.diff
fi
mkdir -p /tmp/demo-aside-$id; for f in $demos; do mkdir -p /tmp/demo-aside-$id/$(dirname $f); mv $f /tmp/demo-aside-$id/$f; done
suite=pass
( go build ./... && go test -vet=off -count=1 ./... ) > $out/suite_root.log 2>&1 || suite=FAIL
( cd godev && go build ./... && go test -vet=off -count=1 ./... ) > $out/suite_godev.log 2>&1 || suite=FAIL
echo "$id suite with change: $suite"
# our checks (snapshot) against the worktree, demonstration still aside
results=""
for p in $props; do
  ( cd $snap && VERIF_DIR=$snap VERIF_REPO=$wt bin/vcheck $p --tier quick --workers 6 ) > $out/check_$p.log 2>&1; rc=$?
  inv=$(grep -m1 'invariant:' $out/check_$p.log | sed 's/ *invariant: //')
  echo "$id check $p: exit $rc $inv"
  results="$results{\"property\":\"$p\",\"exit\":$rc,\"invariant\":\"$inv\"},"
  rp=$(grep -m1 '^VIOLATION' $out/check_$p.log | sed 's/.*replay=//')
  case "$rp" in
    $snap/replays/fixed/*|$snap/replays/known/*) cp "$rp" $out/replay_$p.json;;
    $snap/replays/*) [ -f "$rp" ] && mv "$rp" $out/replay_$p.json;;
  esac
done
for f in $demos; do mv /tmp/demo-aside-$id/$f $f; done; rm -rf /tmp/demo-aside-$id
demo_with=unknown; demo_without=unknown
for f in $demos; do
  dir=$(dirname $f); mod=.; case $f in godev/*) mod=godev; dir=${dir#godev/};; esac
  tests=$(grep -o '^func Test[A-Za-z0-9_]*' $f | sed 's/func //' | paste -sd'|')
  ( cd $mod && go test -vet=off -count=1 -run "^($tests)\$" ./$dir ) > $out/demo_with_change.log 2>&1 && demo_with=pass || demo_with=FAIL
  git apply -R $out/patch.diff
  ( cd $mod && go test -vet=off -count=1 -run "^($tests)\$" ./$dir ) > $out/demo_without_change.log 2>&1 && demo_without=pass || demo_without=FAIL
  git apply $out/patch.diff
done
echo "$id demo with change: $demo_with   without: $demo_without"
cat > $out/results.json <<EOT
{"id":"$id","suite_with_change":"$suite","demo_with_change":"$demo_with","demo_without_change":"$demo_without","checks":[${results%,}]}
EOT
