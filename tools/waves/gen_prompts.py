import json,glob,sys
props={json.loads(l)['id']:json.loads(l) for l in open('/verif/properties.jsonl')}
steer=json.load(open('/tmp/prompts/steer.json'))
tmpl=open('/tmp/prompts/C19c.txt').read()
for mid,(pid,hint) in steer.items():
    p=props[pid]
    tried=[]
    for f in sorted(glob.glob('/verif/seeded/%s?/meta.json'%pid)):
        m=json.load(open(f)); tried.append(m['needs_to_manifest'])
    anchors='; '.join('%s (%s)'%(a['name'],a['where']) for a in p['anchors'].get('mechanism',[]))
    wt='/tmp/wt-'+mid
    s=f"""You are given a scratch git worktree of the Go repository golang/telemetry at {wt} (module golang.org/x/telemetry; a second module lives in {wt}/godev). Work ONLY inside {wt}; never touch /repo or /verif and do not read anything under /verif.

Environment: no network. Before every go command export: GOFLAGS=-mod=mod GOPROXY=off GOSUMDB=off GOTOOLCHAIN=local . The existing tests are run with: cd {wt} && go test -vet=off -count=1 ./...   (and cd {wt}/godev && go test -vet=off -count=1 ./... for the godev module).

Here is a semantic property of this code base that users rely on:

TITLE: {p['title']}
STATEMENT: {p['statement']}
QUANTIFIER: {p['quantifier']['text']}
CODE ANCHORS: {anchors}
FILES: {', '.join(p['anchors'].get('files',[]))}

Your task: write ONE realistic change to the source code of golang/telemetry (non-test .go files only; the kind of mistake a developer could plausibly make in a refactor, an optimisation or a "simplification") that BREAKS this property, while
  (a) the whole repository still compiles,
  (b) the complete existing test suite still passes (run it and confirm), and
  (c) the breakage needs something specific to manifest: a particular interleaving of goroutines/processes, a crash or fault at a particular point, a multi-step sequence of operations, an unusual input or date, or two cooperating code sites that each look fine alone. Do NOT make a change that ordinary single-threaded happy-path use would expose at once.

Also write a demonstration: a Go test file (or small program) that FAILS with your change applied and PASSES on the original code. The demonstration may force the specific circumstance by hand (e.g. pre-building files on disk, calling internal functions in a chosen order, injecting a pause with a test-only hook in the demonstration itself). Put the demonstration in a NEW file (e.g. {wt}/<pkg>/zz_demo_test.go) so it is separate from your source change.

Deliverables, all inside {wt}:
  1. the source change left applied in the worktree (uncommitted),
  2. the demonstration file, and {wt}/DEMO.txt with the exact command to run it and which package dir it lives in,
  3. {wt}/NOTES.txt : 5-10 lines: what the change is, why it breaks the property, what it needs in order to manifest, and confirmation that `go build ./...` and the full existing test suite pass with the change (state the commands you ran and their outcome), and that the demonstration fails with the change and passes without it.
Do not commit. Do not leave any other new files in the worktree. Keep the change small (a few lines). Prefer a change different from the obvious "delete the check": think about ordering, boundary conditions (<, <=), which variable is used, what is locked, when something is flushed or closed, or what is re-checked.

Other engineers already tried changes that need the following circumstances, so do something DIFFERENT from all of these:
""" + '\n'.join('  - '+t for t in tried) + f"""
{hint}

IMPORTANT: never use `git stash` (the stash is shared with other worktrees of the same repository): to test your demonstration on the original code use `git diff > /tmp/x-{mid}.diff; git apply -R /tmp/x-{mid}.diff; ...; git apply /tmp/x-{mid}.diff`. Keep CPU use modest (other jobs share this machine): do not run test loops with -count above 20.
"""
    open(f'/tmp/prompts/{mid}.txt','w').write(s)
    print(mid, len(tried))
