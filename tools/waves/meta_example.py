import json
O="written by a fresh sub-agent that was given only the property text, its own scratch worktree of /repo and a list of circumstances already tried (wave 24: agents had eight minutes each; tried against the final checks for the record, nothing was changed afterwards)"
M={
"C01u":("C01","a configuration whose program entry has an empty version list, and local counter files of that program: no list is taken to mean every version","caught (C01 program-not-approved)",None),
"C04s":("C04","a peer has grown the file and linked a record beyond this process's mapping, and the re-map in newCounter fails once (mmap ENOMEM, EMFILE, EIO): the error path closes the process's current mapping","caught by C05 (a crash in Counter.Add after the injected mmap failure); not by C04, whose worlds inject kills, not failing calls",{"property":"C05","exit":1,"invariant":"panic / memory-fault in Counter.Add"}),
"C07u":("C07","a counter file whose entries all hold zero (a slot allocated, the process dead before the count was added): zero-valued entries are skipped, the week gets no report","caught (C07 counters)",None),
"C08v":("C08","a first request answered 304, 300 or 202, then a run against a healthy server: every non-200 answer below 500 discards the report","not caught: the simulated server's fates are 200, 4xx, 5xx, no answer, answer lost, duplicate delivery; what an answer outside the statement's four outcomes must lead to is not said, so none is drawn; recorded as a gap",None),
"C10r":("C10","a creator that dies or is cut short inside the header write, then a normal open: the header is written only into an empty file, the cut header is kept and the file extended","caught by C05 (well-formed: damaged after a failed call - the short header write is one of the enumerated faults); not by C10, whose histories have no failing writes",{"property":"C05","exit":1,"invariant":"well-formed"}),
"C11p":("C11","an approved counter or stack name containing a character that HTML escaping rewrites (< > & ' \"): the viewer's summary looks the escaped name up","not caught: no name of the configuration and counter pools holds such a character; recorded as a gap (adding one changes every pool-driven scenario's stored replays, which there was no time left to regenerate)",None),
"C16t":("C16","mode off with a date that is not YYYY-MM-DD (off 2024-1-5): such a mode file is read as missing, i.e. local","not caught: the mode files of H7 are on / local / off with canonical or no dates, missing, and garbage without a valid first word; recorded as a gap",None),
"C19o":("C19","more than 1024 entries in local/ or upload/: clean reads one batch of directory entries","not caught: the generated directories hold tens of entries; recorded as a gap",None),
}
for id,(prop,needs,det,extra) in M.items():
    d='/verif/seeded/'+id
    r=json.load(open(d+'/results.json'))
    checks=r['checks']+([extra] if extra else [])
    meta={"id":id,"breaks_property":prop,"needs_to_manifest":needs,"detection":det,"origin":O,
     "confirmed":{"compiles_and_existing_suite_passes_with_change":r.get('suite_with_change')=='pass',"demonstration_fails_with_change":r.get('demo_with_change')=='FAIL',"demonstration_passes_without_change":r.get('demo_without_change')=='pass',"how":"tools/try_mutant_snap.sh <snapshot> "+id},
     "checks_run_against_it_last":checks,
     "files":{"patch":"patch.diff","demonstration":"demo/","agent_notes":"notes.txt"}}
    json.dump(meta,open(d+'/meta.json','w'),indent=1)
    print(id, list(meta['confirmed'].values())[:3])
