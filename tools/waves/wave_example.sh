#!/bin/bash
S=/dev/shm/vsnap
START=$(date +%s)
for x in "C01u C01" "C04s C04" "C07u C07" "C08v C08" "C10r C10" "C11p C11" "C16t C16" "C19o C19"; do
  while [ ! -f /tmp/wt-${x%% *}/NOTES.txt ] && [ $(( $(date +%s) - START )) -lt 700 ]; do sleep 15; done
  [ -f /tmp/wt-${x%% *}/NOTES.txt ] && /verif/tools/try_mutant_snap.sh $S $x
done
echo ALLDONE
